// C15 -- environment answers and hostile wide input.
//
// (1) Every writer of the property against scripted OUTPUT stream buffers (bounded sinks that
//     accept exactly k characters, sinks with a small put area that take everything in chunks,
//     sinks that throw at the k-th character with and without an exceptions() mask, streams that
//     are already failed).  Oracle ("return the complete result or report failure"): if the
//     stream is good() after the call, the sink holds exactly the reference encoding; whatever
//     the sink holds is a prefix of the reference encoding; a sink that accepts everything
//     receives everything and the stream stays good.  Every reader (io::read, io::read_chars)
//     against scripted INPUT buffers (k of n bytes, chunked refills, throwing underflow, failed
//     stream): a value is returned only if it is the reference value, a complete source always
//     yields it, an incomplete one never yields a (partial) value.
// (2) Wide text readers fed tokens that equal a valid name / number only modulo 256 in one
//     character (+0x100, +0x400, +0x1F400), with U+0100..U+017F substitutions, full-width digits
//     and embedded high characters: they are NOT the value -- failure is reported.
#include "C15_common.hpp"

#include <fcppt/extract_from_string.hpp>
#include <fcppt/extract_from_string_locale.hpp>
#include <fcppt/from_std_wstring_locale.hpp>
#include <fcppt/narrow_locale.hpp>
#include <fcppt/no_init.hpp>
#include <fcppt/strong_typedef.hpp>
#include <fcppt/strong_typedef_output.hpp>
#include <fcppt/assert/unreachable.hpp>
#include <fcppt/enum/input.hpp>
#include <fcppt/enum/output.hpp>
#include <fcppt/enum/to_string.hpp>
#include <fcppt/enum/to_string_impl_fwd.hpp>
#include <fcppt/io/buffer.hpp>
#include <fcppt/io/narrow_string_locale.hpp>
#include <fcppt/io/optional_buffer.hpp>
#include <fcppt/io/read.hpp>
#include <fcppt/io/read_chars.hpp>
#include <fcppt/io/write.hpp>
#include <fcppt/io/write_chars.hpp>
#include <fcppt/math/dim/output.hpp>
#include <fcppt/math/dim/static.hpp>
#include <fcppt/math/vector/output.hpp>
#include <fcppt/math/vector/static.hpp>
#include <fcppt/optional/object_impl.hpp>

#include <bit>
#include <cstring>
#include <istream>
#include <locale>
#include <memory>
#include <ostream>
#include <sstream>
#include <stdexcept>
#include <streambuf>
#include <string>
#include <string_view>

namespace c15v
{
enum class tone
{
  red,
  green,
  blue,
  ab,
  fcppt_maximum = ab
};
template <class Ch, class Tr> std::basic_ostream<Ch, Tr> &operator<<(std::basic_ostream<Ch, Tr> &s, tone v) { return fcppt::enum_::output(s, v); }
template <class Ch, class Tr> std::basic_istream<Ch, Tr> &operator>>(std::basic_istream<Ch, Tr> &s, tone &v) { return fcppt::enum_::input(s, v); }
constexpr char const *tone_names[4] = {"red", "green", "blue", "ab"};
}
namespace fcppt::enum_
{
template <> struct to_string_impl<c15v::tone>
{
  static std::string_view get(c15v::tone const v) { return c15v::tone_names[static_cast<int>(v)]; }
};
}

namespace
{
using namespace c15;
using c15v::tone;

// ------------------------------------------------------------------ scripted sinks
enum sink_mode
{
  bounded_virtual, // no put area: xsputn takes what fits, overflow fails when full
  bounded_putarea, // a put area of exactly k characters, overflow always fails
  chunked,         // a put area of k characters that is flushed by overflow: takes everything
  thrower          // throws when character number k is offered
};

template <class Ch> class script_sink : public std::basic_streambuf<Ch>
{
  using base = std::basic_streambuf<Ch>;
  using traits = typename base::traits_type;
  using int_type = typename base::int_type;
  sink_mode mode_;
  std::size_t k_;
  std::basic_string<Ch> got_;
  std::vector<Ch> area_;

public:
  script_sink(sink_mode m, std::size_t k) : mode_(m), k_(k), area_((m == bounded_putarea || m == chunked) ? k : 0)
  {
    if (!area_.empty())
      this->setp(area_.data(), area_.data() + area_.size());
  }
  std::basic_string<Ch> accepted() const
  {
    std::basic_string<Ch> r = got_;
    if (this->pbase() != nullptr)
      r.append(this->pbase(), this->pptr());
    return r;
  }

protected:
  int_type overflow(int_type c) override
  {
    bool const eof = traits::eq_int_type(c, traits::eof());
    switch (mode_)
    {
    case bounded_virtual:
      if (eof)
        return traits::not_eof(c);
      if (got_.size() >= k_)
        return traits::eof();
      got_ += traits::to_char_type(c);
      return c;
    case bounded_putarea: return traits::eof();
    case chunked:
      got_.append(this->pbase(), this->pptr());
      this->setp(area_.data(), area_.data() + area_.size());
      if (!eof)
      {
        *this->pptr() = traits::to_char_type(c);
        this->pbump(1);
      }
      return traits::not_eof(c);
    case thrower:
      if (eof)
        return traits::not_eof(c);
      if (got_.size() >= k_)
        throw std::runtime_error("scripted sink failure");
      got_ += traits::to_char_type(c);
      return c;
    }
    return traits::eof();
  }
  std::streamsize xsputn(Ch const *s, std::streamsize n) override
  {
    if (mode_ == bounded_virtual)
    {
      std::size_t const room = k_ > got_.size() ? k_ - got_.size() : 0;
      std::size_t const take = std::min<std::size_t>(room, static_cast<std::size_t>(n));
      got_.append(s, take);
      return static_cast<std::streamsize>(take);
    }
    return base::xsputn(s, n); // put area / overflow, character by character
  }
};

struct scenario
{
  int kind; // 0 bounded_virtual, 1 bounded_putarea, 2 chunked, 3 thrower, 4 thrower + badbit mask, 5 thrower + all masks, 6 pre-set state
  std::size_t k;
};
std::vector<scenario> scenarios(std::size_t n)
{
  std::vector<scenario> r;
  for (std::size_t k = 0; k <= n + 1; ++k)
  {
    r.push_back({0, k});
    r.push_back({1, k});
  }
  for (std::size_t k = 1; k <= std::max<std::size_t>(n, 1); ++k)
    r.push_back({2, k});
  for (int kind = 3; kind <= 5; ++kind)
    for (std::size_t k = 0; k < n; ++k)
      r.push_back({kind, k});
  for (std::size_t k = 0; k < 3; ++k)
    r.push_back({6, k});
  return r;
}
char const *kind_name(int k)
{
  static char const *const n[] = {"sink accepting k chars (xsputn/overflow)", "sink with a put area of k chars", "sink flushing a put area of k chars",
                                  "sink throwing at char k", "sink throwing at char k, exceptions(badbit)",
                                  "sink throwing at char k, exceptions(all)", "stream already failed (k: fail/bad/eof)"};
  return n[k];
}

template <class Ch> std::string hexs(std::basic_string<Ch> const &s)
{
  std::string r;
  for (Ch c : s)
    r += vrt::fmt("%02x ", static_cast<unsigned>(c) & 0xffffffu);
  return r;
}

// run one writer against one scripted sink
template <class Ch, class Write>
void sink_case(std::string const &name, std::basic_string<Ch> const &ref, bool byte_exact, scenario const &sc, Write const &write)
{
  sink_mode const mode = sc.kind == 0 ? bounded_virtual : sc.kind == 1 ? bounded_putarea : sc.kind == 2 ? chunked : sc.kind == 6 ? bounded_virtual : thrower;
  script_sink<Ch> sink(mode, sc.kind == 6 ? ref.size() + 100 : sc.k);
  std::basic_ostream<Ch> os(&sink);
  if (sc.kind == 4)
    os.exceptions(std::ios_base::badbit);
  if (sc.kind == 5)
    os.exceptions(std::ios_base::badbit | std::ios_base::failbit | std::ios_base::eofbit);
  if (sc.kind == 6)
    os.setstate(sc.k == 0 ? std::ios_base::failbit : sc.k == 1 ? std::ios_base::badbit : std::ios_base::eofbit);
  bool threw = false;
  try
  {
    write(os);
  }
  catch (...)
  {
    threw = true;
  }
  std::basic_string<Ch> const acc = sink.accepted();
  bool const good = os.good() && !threw;
  bool const accepts_all = sc.kind == 2 || ((sc.kind == 0 || sc.kind == 1) && sc.k >= ref.size());
  std::string const where = vrt::fmt("%s, k=%zu", kind_name(sc.kind), sc.k);
  if (good && acc != ref)
  {
    bool const prefix = acc.size() < ref.size() && ref.compare(0, acc.size(), acc) == 0;
    if (!byte_exact && acc.size() == ref.size())
      ; // long double: only the length is defined
    else
      vrt::fail(name + (prefix ? ":good_but_truncated" : ":good_but_wrong"),
                vrt::fmt("%s: the stream is good() after the call but the sink holds %zu of %zu characters [%s] want [%s]", where.c_str(),
                         acc.size(), ref.size(), hexs(acc).c_str(), hexs(ref).c_str()));
  }
  // what reaches the sink before a REPORTED failure is not specified by the property: information only
  if (byte_exact && !(acc.size() <= ref.size() && ref.compare(0, acc.size(), acc) == 0))
    vrt::count("info:failed_write_left_something_other_than_a_prefix");
  if (accepts_all)
    VRT_CHECK(good && acc.size() == ref.size(), name + ":complete_sink_failed", "%s: good=%d threw=%d, the sink holds %zu of %zu characters",
              where.c_str(), int(os.good()), int(threw), acc.size(), ref.size());
  if (!good)
    VRT_CHECK(threw || os.fail() || os.eof(), name + ":failure_not_reported", "%s: not good but neither fail() nor an exception", where.c_str());
}

template <class Ch, class Write>
void sink_all(std::string const &name, std::size_t caseidx, std::string const &descr, std::basic_string<Ch> const &ref, bool byte_exact, Write const &write)
{
  std::vector<scenario> const scs = scenarios(ref.size());
  for (std::size_t i = 0; i < scs.size(); ++i)
  {
    if (!vrt::begin(name.c_str(), caseidx, scs[i].kind, scs[i].k))
      continue;
    vrt::describe(name + "(" + descr + "; " + kind_name(scs[i].kind) + ", k=" + std::to_string(scs[i].k) + ")");
    vrt::nontrivial(scs[i].k < ref.size() && scs[i].kind != 2);
    vrt::maybe_sample();
    sink_case<Ch>(name, ref, byte_exact, scs[i], write);
  }
}

// ------------------------------------------------------------------ io::write
template <class T> std::string encoding(T const &v, bool big)
{
  unsigned char b[sizeof(T)];
  std::memcpy(b, &v, sizeof(T));
  std::string s(reinterpret_cast<char const *>(b), sizeof(T));
  bool const native_big = std::endian::native == std::endian::big;
  if (big != native_big)
    s = std::string(s.rbegin(), s.rend());
  return s;
}

template <class T> void write_sinks(char const *tname, std::vector<T> const &vals)
{
  static std::string const name = std::string("io_write_sink<") + tname + ">";
  constexpr bool exact = !std::is_same_v<T, long double>;
  std::size_t idx = 0;
  for (T const &v : vals)
    for (std::endian const e : {std::endian::little, std::endian::big})
    {
      bool const big = e == std::endian::big;
      std::string d;
      if constexpr (std::is_floating_point_v<T>)
        d = vrt::fmt("%.21Lg", static_cast<long double>(v));
      else
        d = dec(static_cast<i128>(v));
      sink_all<char>(name, idx++, d + (big ? ", big" : ", little"), encoding(v, big), exact,
                     [&](std::ostream &os) { fcppt::io::write(os, v, e); });
    }
}

void write_chars_sinks()
{
  static std::string const name = "io_write_chars_sink";
  std::string const full("\x01\x02\xff\x00\x7f\x80 z\n", 9); // 9 characters incl. NUL
  for (std::size_t n = 0; n <= full.size(); ++n)
  {
    std::string const ref = full.substr(0, n);
    std::vector<scenario> const scs = scenarios(n);
    for (std::size_t i = 0; i < scs.size(); ++i)
    {
      if (!vrt::begin(name.c_str(), n, scs[i].kind, scs[i].k))
        continue;
      vrt::describe(name + "(" + std::to_string(n) + " chars; " + kind_name(scs[i].kind) + ", k=" + std::to_string(scs[i].k) + ")");
      vrt::nontrivial(scs[i].k < n && scs[i].kind != 2);
      vrt::maybe_sample();
      // exact-size heap copy of the data
      std::unique_ptr<char[]> buf(new char[n]);
      std::copy(ref.begin(), ref.end(), buf.get());
      bool ret = false, called = false;
      std::ostream *seen = nullptr;
      sink_case<char>(name, ref, true, scs[i], [&](std::ostream &os) {
        seen = &os;
        ret = fcppt::io::write_chars(os, buf.get(), n);
        called = true;
        // "\return If the write operation succeeded."
        VRT_CHECK(ret == os.good(), name + ":return_value", "returned %d but good() is %d", int(ret), int(os.good()));
      });
      (void)seen;
      (void)called;
    }
  }
}

// ------------------------------------------------------------------ text writers (operator<<)
template <class Ch> std::basic_string<Ch> Wd(std::string const &s)
{
  std::basic_string<Ch> r;
  for (char c : s)
    r += static_cast<Ch>(static_cast<unsigned char>(c));
  return r;
}

struct sv_tag
{
};

template <class Ch> void text_sinks(char const *chname)
{
  namespace fv = fcppt::math::vector;
  namespace fd = fcppt::math::dim;
  static std::string const n_vec = std::string("vector_output_sink<") + chname + ">";
  static std::string const n_dim = std::string("dim_output_sink<") + chname + ">";
  static std::string const n_enum = std::string("enum_output_sink<") + chname + ">";
  static std::string const n_st = std::string("strong_typedef_output_sink<") + chname + ">";
  int const comps[][3] = {{0, 0, 0}, {1, -2, 30}, {-100, 255, 7}, {4096, -1, 12345}};
  std::size_t idx = 0;
  for (auto const &c : comps)
  {
    fv::static_<int, 3> v3{fcppt::no_init{}};
    fd::static_<int, 2> d2{fcppt::no_init{}};
    for (unsigned i = 0; i < 3; ++i)
      v3.get_unsafe(i) = c[i];
    for (unsigned i = 0; i < 2; ++i)
      d2.get_unsafe(i) = c[i];
    std::string const t3 = "(" + dec(c[0]) + "," + dec(c[1]) + "," + dec(c[2]) + ")";
    std::string const t2 = "(" + dec(c[0]) + "," + dec(c[1]) + ")";
    sink_all<Ch>(n_vec, idx, t3, Wd<Ch>(t3), true, [&](std::basic_ostream<Ch> &os) { os << v3; });
    sink_all<Ch>(n_dim, idx, t2, Wd<Ch>(t2), true, [&](std::basic_ostream<Ch> &os) { os << d2; });
    ++idx;
  }
  for (int i = 0; i < 4; ++i)
    sink_all<Ch>(n_enum, static_cast<std::size_t>(i), c15v::tone_names[i], Wd<Ch>(c15v::tone_names[i]), true,
                 [&](std::basic_ostream<Ch> &os) { os << static_cast<tone>(i); });
  idx = 0;
  for (long long x : {0LL, -7LL, 12345LL, -2147483648LL})
  {
    fcppt::strong_typedef<long long, sv_tag> const s(x);
    sink_all<Ch>(n_st, idx++, dec(x), Wd<Ch>(dec(x)), true, [&](std::basic_ostream<Ch> &os) { os << s; });
  }
}

// ------------------------------------------------------------------ scripted sources
class script_source : public std::streambuf
{
  std::string data_;
  std::size_t pos_ = 0, chunk_, throw_at_;
  std::vector<char> area_;

public:
  static constexpr std::size_t never = static_cast<std::size_t>(-1);
  script_source(std::string d, std::size_t chunk, std::size_t throw_at) : data_(std::move(d)), chunk_(chunk), throw_at_(throw_at), area_(chunk) {}
  std::size_t consumed() const { return pos_ - static_cast<std::size_t>(egptr() - gptr()); }

protected:
  int_type underflow() override
  {
    if (gptr() != nullptr && gptr() < egptr())
      return traits_type::to_int_type(*gptr());
    if (throw_at_ != never && pos_ >= throw_at_)
      throw std::runtime_error("scripted source failure");
    if (pos_ >= data_.size())
      return traits_type::eof();
    std::size_t n = std::min(chunk_, data_.size() - pos_);
    if (throw_at_ != never)
      n = std::min(n, throw_at_ - pos_);
    std::memcpy(area_.data(), data_.data() + pos_, n);
    pos_ += n;
    setg(area_.data(), area_.data(), area_.data() + n);
    return traits_type::to_int_type(*gptr());
  }
};

struct rscenario
{
  int kind; // 0 only k bytes available, 1 complete + chunk k, 2 throws at byte k, 3 throws + exceptions(badbit), 4 throws + all masks, 5 pre-set state k
  std::size_t k, chunk;
};
std::vector<rscenario> rscenarios(std::size_t n)
{
  std::vector<rscenario> r;
  for (std::size_t chunk : {std::size_t(1), std::size_t(3), n + 2})
  {
    for (std::size_t k = 0; k < n; ++k)
      r.push_back({0, k, chunk});
    for (int kind = 2; kind <= 4; ++kind)
      for (std::size_t k = 0; k < n; ++k)
        r.push_back({kind, k, chunk});
  }
  for (std::size_t chunk = 1; chunk <= n + 2; ++chunk)
    r.push_back({1, n, chunk});
  for (std::size_t k = 0; k < 3; ++k)
    r.push_back({5, k, n});
  return r;
}
char const *rkind_name(int k)
{
  static char const *const n[] = {"source holding only k bytes", "complete source", "source throwing at byte k", "source throwing at byte k, exceptions(badbit)",
                                  "source throwing at byte k, exceptions(all)", "stream already failed (k: fail/bad/eof)"};
  return n[k];
}

// Read: (std::istream&) -> optional<std::string> holding the bytes of the value read (nothing if nothing)
template <class Read>
void source_all(std::string const &name, std::size_t caseidx, std::string const &descr, std::string const &enc, Read const &read)
{
  std::size_t const n = enc.size();
  std::vector<rscenario> const scs = rscenarios(n);
  for (std::size_t i = 0; i < scs.size(); ++i)
  {
    rscenario const &sc = scs[i];
    if (!vrt::begin(name.c_str(), caseidx, sc.kind, sc.k, sc.chunk))
      continue;
    vrt::describe(name + "(" + descr + "; " + rkind_name(sc.kind) + ", k=" + std::to_string(sc.k) + ", refills of " + std::to_string(sc.chunk) + ")");
    vrt::nontrivial(sc.kind != 1);
    vrt::maybe_sample();
    std::string data = enc + "\x55\xaa"; // two more bytes follow the value
    if (sc.kind == 0)
      data = enc.substr(0, sc.k);
    script_source src(data, sc.chunk, (sc.kind >= 2 && sc.kind <= 4) ? sc.k : script_source::never);
    std::istream is(&src);
    if (sc.kind == 3)
      is.exceptions(std::ios_base::badbit);
    if (sc.kind == 4)
      is.exceptions(std::ios_base::badbit | std::ios_base::failbit | std::ios_base::eofbit);
    if (sc.kind == 5)
      is.setstate(sc.k == 0 ? std::ios_base::failbit : sc.k == 1 ? std::ios_base::badbit : std::ios_base::eofbit);
    bool threw = false;
    fcppt::optional::object<std::string> got;
    try
    {
      got = read(is);
    }
    catch (...)
    {
      threw = true;
    }
    std::string const where = vrt::fmt("%s, k=%zu, refills of %zu", rkind_name(sc.kind), sc.k, sc.chunk);
    if (got.has_value())
      VRT_CHECK(got.get_unsafe() == enc, name + ":wrong_value", "%s: a value with bytes [%s] was returned, the source encodes [%s]", where.c_str(),
                hex_bytes(got.get_unsafe()).c_str(), hex_bytes(enc).c_str());
    if (sc.kind == 1)
    {
      VRT_CHECK(got.has_value() && !threw, name + ":complete_source_failed", "%s: nothing was returned (threw=%d)", where.c_str(), int(threw));
      VRT_CHECK(src.consumed() == n, name + ":consumed", "%s: %zu bytes consumed, the value has %zu", where.c_str(), src.consumed(), n);
    }
    else if (n > 0)
      VRT_CHECK(!got.has_value(), name + ":partial_value", "%s: a value was returned although the source cannot deliver %zu bytes", where.c_str(), n);
  }
}

template <class T> void read_sources(char const *tname, std::vector<T> const &vals)
{
  static std::string const name = std::string("io_read_source<") + tname + ">";
  std::size_t idx = 0;
  for (T const &v : vals)
    for (std::endian const e : {std::endian::little, std::endian::big})
    {
      bool const big = e == std::endian::big;
      std::string d;
      if constexpr (std::is_floating_point_v<T>)
        d = vrt::fmt("%.21Lg", static_cast<long double>(v));
      else
        d = dec(static_cast<i128>(v));
      source_all(name, idx++, d + (big ? ", big" : ", little"), encoding(v, big), [&](std::istream &is) {
        fcppt::optional::object<T> const r = fcppt::io::read<T>(is, e);
        // compare through the encoding: independent of how T compares (NaN, -0)
        return r.has_value() ? fcppt::optional::object<std::string>(encoding(r.get_unsafe(), big)) : fcppt::optional::object<std::string>();
      });
    }
}

void read_chars_sources()
{
  static std::string const name = "io_read_chars_source";
  std::string const full("\x01\x02\xff\x00\x7f\x80 z\n", 9);
  for (std::size_t n = 0; n <= full.size(); ++n)
    source_all(name, n, std::to_string(n) + " chars", full.substr(0, n), [&](std::istream &is) {
      fcppt::io::optional_buffer r = fcppt::io::read_chars(is, n);
      return r.has_value() ? fcppt::optional::object<std::string>(std::string(r.get_unsafe().begin(), r.get_unsafe().end()))
                           : fcppt::optional::object<std::string>();
    });
}

// ------------------------------------------------------------------ (2) wide tokens
std::string showw(std::wstring const &w)
{
  std::string r;
  for (wchar_t c : w)
    r += (c >= 0x21 && c < 0x7f) ? std::string(1, static_cast<char>(c)) : vrt::fmt("<U+%04X>", static_cast<unsigned>(c));
  return r;
}

// tokens derived from an ASCII token that are NOT that token
std::vector<std::wstring> hostile(std::string const &tok, bool digits)
{
  std::vector<std::wstring> r;
  std::wstring const w = Wd<wchar_t>(tok);
  for (std::size_t p = 0; p < w.size(); ++p)
  {
    for (wchar_t off : {wchar_t(0x100), wchar_t(0x400), wchar_t(0x1F400), wchar_t(0x10000), wchar_t(0xFF00)})
    {
      std::wstring t = w;
      t[p] = static_cast<wchar_t>(t[p] + off); // equals tok modulo 256 (and modulo 65536 for 0x10000)
      r.push_back(t);
    }
    for (wchar_t c = 0x100; c <= 0x17F; ++c) // Latin Extended-A neighbours
    {
      std::wstring t = w;
      t[p] = c;
      r.push_back(t);
    }
    if (digits && tok[p] >= '0' && tok[p] <= '9')
    {
      std::wstring t = w;
      t[p] = static_cast<wchar_t>(0xFF10 + (tok[p] - '0')); // full-width digit
      r.push_back(t);
      t[p] = static_cast<wchar_t>(0x0660 + (tok[p] - '0')); // Arabic-Indic digit
      r.push_back(t);
    }
  }
  for (std::size_t p = 0; p <= w.size(); ++p) // embedded high characters
    for (wchar_t c : {wchar_t(0xE9), wchar_t(0x20AC), wchar_t(0x1F600), wchar_t(0x100)})
    {
      std::wstring t = w;
      t.insert(t.begin() + static_cast<std::ptrdiff_t>(p), c);
      r.push_back(t);
    }
  if (digits)
  {
    std::wstring t;
    for (char c : tok)
      t += (c >= '0' && c <= '9') ? static_cast<wchar_t>(0xFF10 + (c - '0')) : static_cast<wchar_t>(static_cast<unsigned char>(c));
    if (t != w)
      r.push_back(t);
  }
  return r;
}

void wide_tokens(char const *locname)
{
  std::locale const loc(locname);
  std::locale::global(loc);
  std::string const L = locname;
  static std::string const n_in = "wide_token<enum_input>";
  static std::string const n_ex = "wide_token<extract_enum>";
  static std::string const n_int = "wide_token<extract_int>";
  static std::string const n_str = "wide_token<extract_wstring>";
  static std::string const n_nar = "wide_token<narrow>";
  // --- enum readers
  for (int ei = 0; ei < 4; ++ei)
  {
    std::string const nm = c15v::tone_names[ei];
    for (std::wstring const &t : hostile(nm, false))
    {
      std::string const d = showw(t) + " ~ " + nm + ", " + L;
      if (vrt::begin_text(n_in.c_str(), n_in + "(" + d + ")"))
      {
        vrt::nontrivial(true);
        vrt::maybe_sample();
        for (int ownloc = 0; ownloc < 2; ++ownloc)
        {
          std::wistringstream is(t);
          if (ownloc)
            is.imbue(loc);
          tone const before = ei == 0 ? tone::blue : tone::red;
          tone r = before;
          is >> r;
          VRT_CHECK(is.fail(), n_in + ":accepted", "wide token %s was read as enumerator %s (stream not failed)", showw(t).c_str(),
                    c15v::tone_names[static_cast<int>(r)]);
          // enum/input.hpp only promises "In case this fails, the failbit of _stream is set": information only
          if (r != before)
            vrt::count("info:enum_input_failure_changed_target");
        }
      }
      if (vrt::begin_text(n_ex.c_str(), n_ex + "(" + d + ")"))
      {
        vrt::nontrivial(true);
        fcppt::optional::object<tone> const r = fcppt::extract_from_string<tone>(t);
        VRT_CHECK(!r.has_value(), n_ex + ":accepted", "extract_from_string(%s) gives %s", showw(t).c_str(),
                  r.has_value() ? c15v::tone_names[static_cast<int>(r.get_unsafe())] : "");
        fcppt::optional::object<tone> const r2 = fcppt::extract_from_string_locale<tone>(t, loc);
        VRT_CHECK(!r2.has_value(), n_ex + ":accepted", "extract_from_string_locale(%s) gives %s", showw(t).c_str(),
                  r2.has_value() ? c15v::tone_names[static_cast<int>(r2.get_unsafe())] : "");
      }
      if (vrt::begin_text(n_nar.c_str(), n_nar + "(" + d + ")"))
      {
        vrt::nontrivial(true);
        // exact-size buffer behind the view
        std::unique_ptr<wchar_t[]> wb(new wchar_t[t.size()]);
        std::copy(t.begin(), t.end(), wb.get());
        std::wstring_view const wv(wb.get(), t.size());
        fcppt::optional::object<std::string> const a = fcppt::narrow_locale(wv, loc);
        VRT_CHECK(!(a.has_value() && a.get_unsafe() == nm), n_nar + ":low_bits_accepted", "narrow_locale(%s) gives \"%s\"", showw(t).c_str(), nm.c_str());
        fcppt::optional::object<std::string> const b = fcppt::from_std_wstring_locale(wv, loc);
        VRT_CHECK(!(b.has_value() && b.get_unsafe() == nm), n_nar + ":low_bits_accepted", "from_std_wstring_locale(%s) gives \"%s\"", showw(t).c_str(),
                  nm.c_str());
        fcppt::optional::object<std::string> const c = fcppt::io::narrow_string_locale(wv, loc);
        VRT_CHECK(!(c.has_value() && c.get_unsafe() == nm), n_nar + ":low_bits_accepted", "io::narrow_string_locale(%s) gives \"%s\"", showw(t).c_str(),
                  nm.c_str());
      }
    }
  }
  // --- numeric extraction
  for (char const *tok : {"0", "7", "42", "-15", "1000", "65535", "+8"})
  {
    long long const val = std::strtoll(tok, nullptr, 10);
    for (std::wstring const &t : hostile(tok, true))
    {
      std::string const d = showw(t) + " ~ " + tok + ", " + L;
      if (vrt::begin_text(n_int.c_str(), n_int + "(" + d + ")"))
      {
        vrt::nontrivial(true);
        vrt::maybe_sample();
        fcppt::optional::object<long long> const r = fcppt::extract_from_string<long long>(t);
        VRT_CHECK(!r.has_value(), n_int + ":accepted", "extract_from_string<long long>(%s) gives %lld", showw(t).c_str(),
                  r.has_value() ? r.get_unsafe() : 0LL);
        fcppt::optional::object<int> const r2 = fcppt::extract_from_string_locale<int>(t, loc);
        VRT_CHECK(!r2.has_value(), n_int + ":accepted", "extract_from_string_locale<int>(%s) gives %d", showw(t).c_str(),
                  r2.has_value() ? r2.get_unsafe() : 0);
        if (val >= 0)
        {
          fcppt::optional::object<unsigned short> const r3 = fcppt::extract_from_string<unsigned short>(t);
          VRT_CHECK(!r3.has_value(), n_int + ":accepted", "extract_from_string<unsigned short>(%s) gives %u", showw(t).c_str(),
                    r3.has_value() ? unsigned(r3.get_unsafe()) : 0u);
        }
      }
      // a wide string is read back as exactly that wide string (no character is cut down)
      if (vrt::begin_text(n_str.c_str(), n_str + "(" + d + ")"))
      {
        vrt::nontrivial(true);
        fcppt::optional::object<std::wstring> const s = fcppt::extract_from_string<std::wstring>(t);
        VRT_CHECK(s.has_value() && s.get_unsafe() == t, n_str + ":changed", "extract_from_string<std::wstring>(%s) gives %s", showw(t).c_str(),
                  s.has_value() ? showw(s.get_unsafe()).c_str() : "nothing");
      }
    }
  }
}

template <class T> std::vector<T> some_values()
{
  std::vector<T> r;
  if constexpr (std::is_same_v<T, bool>)
    r = {false, true};
  else if constexpr (std::is_floating_point_v<T>)
    r = {T(0), T(1.5), T(-3.14159265358979323846L), std::numeric_limits<T>::max(), std::numeric_limits<T>::denorm_min()};
  else
  {
    using U = std::make_unsigned_t<std::conditional_t<std::is_same_v<T, wchar_t> || std::is_same_v<T, char16_t> || std::is_same_v<T, char32_t>,
                                                        std::uint64_t, T>>;
    (void)sizeof(U);
    std::uint64_t const pat = 0x0102030405060708ULL >> (8 * (8 - sizeof(T)));
    r = {T(0), static_cast<T>(pat), std::numeric_limits<T>::max(), std::numeric_limits<T>::min(), static_cast<T>(~pat)};
  }
  return r;
}
}

void c15::register_env()
{
  vrt::shard("write_sinks_int", [] {
    write_sinks<std::uint8_t>("u8", some_values<std::uint8_t>());
    write_sinks<std::int8_t>("i8", some_values<std::int8_t>());
    write_sinks<char>("char", some_values<char>());
    write_sinks<bool>("bool", some_values<bool>());
    write_sinks<std::uint16_t>("u16", some_values<std::uint16_t>());
    write_sinks<std::int16_t>("i16", some_values<std::int16_t>());
    write_sinks<char16_t>("char16_t", some_values<char16_t>());
    write_sinks<std::uint32_t>("u32", some_values<std::uint32_t>());
    write_sinks<std::int32_t>("i32", some_values<std::int32_t>());
    write_sinks<wchar_t>("wchar_t", some_values<wchar_t>());
    write_sinks<char32_t>("char32_t", some_values<char32_t>());
    write_sinks<std::uint64_t>("u64", some_values<std::uint64_t>());
    write_sinks<std::int64_t>("i64", some_values<std::int64_t>());
  });
  vrt::shard("write_sinks_float", [] {
    write_sinks<float>("float", some_values<float>());
    write_sinks<double>("double", some_values<double>());
    write_sinks<long double>("long double", some_values<long double>());
    write_chars_sinks();
  });
  vrt::shard("text_sinks", [] {
    std::locale::global(std::locale("C.UTF-8"));
    text_sinks<char>("char");
    text_sinks<wchar_t>("wchar_t");
  });
  vrt::shard("read_sources", [] {
    read_sources<std::uint8_t>("u8", some_values<std::uint8_t>());
    read_sources<std::int16_t>("i16", some_values<std::int16_t>());
    read_sources<std::uint32_t>("u32", some_values<std::uint32_t>());
    read_sources<std::int64_t>("i64", some_values<std::int64_t>());
    read_sources<float>("float", some_values<float>());
    read_sources<double>("double", some_values<double>());
    read_chars_sources();
  });
  vrt::shard("wide_tokens/C", [] { wide_tokens("C"); });
  vrt::shard("wide_tokens/C.UTF-8", [] { wide_tokens("C.UTF-8"); });
}

// C04 (part 4) -- payload family "val": see C04_rich.hpp
#include "C04_rich.hpp"

void c04_rich_val_shards() { c04::rich_family_shards<c04::fam_val>(); }

// C14_access.hpp -- write and read access through every accessor that is documented to
// return a reference, generic in the scalar T (int in the binary C14b, the class-type scalar
// quat in the binary C14: assigning to a class-type prvalue compiles, so a reference that
// decayed to a copy shows up as a lost write at run time; for int it is a compile error,
// covered by the compile probes write_<accessor>_int).
// For every accessor W and every position: fresh object with pairwise different elements;
//   W(obj) = x; W(obj) += y; W(obj) *= z   -- after each step the whole object is read back
// through the raw storage and through every accessor (const and non-const) and compared with
// the plain array on which the same assignment was made; the declared result type of the
// accessor (T& / T const&) is recorded as an info counter only: the verdict is the behaviour.
#pragma once
#include "C14_common.hpp"
#include "C14_scalar.hpp"
#include "C14_strided.hpp"

#include <fcppt/math/dim/at.hpp>
#include <fcppt/math/matrix/at_r.hpp>
#include <fcppt/math/matrix/at_r_c.hpp>
#include <fcppt/math/vector/arithmetic.hpp>
#include <fcppt/math/vector/at.hpp>

#include <type_traits>

namespace c14
{
namespace access
{
namespace fm = fcppt::math::matrix;
namespace fv = fcppt::math::vector;
namespace fd = fcppt::math::dim;

template <class T> struct scalar_traits;
template <> struct scalar_traits<int>
{
  static constexpr char const *name = "int";
  static int mark(long n) { return static_cast<int>(n); }
  static std::string show(int v) { return std::to_string(v); }
};
template <> struct scalar_traits<quat>
{
  static constexpr char const *name = "quat";
  static quat mark(long n) { return quat{n, n + 1, 0, n % 3}; }
  static std::string show(quat const &v) { return c14::show(v); }
};
template <class T> std::string show_all(std::vector<T> const &v)
{
  std::string s = "{";
  for (std::size_t i = 0; i < v.size(); ++i)
    s += (i ? "," : "") + scalar_traits<T>::show(v[i]);
  return s + "}";
}
template <class T> bool expect_all(std::vector<T> const &got, std::vector<T> const &want, std::string const &sig, std::string const &what)
{
  if (got == want)
    return true;
  failv(sig, what + ": got " + show_all(got) + " want " + show_all(want));
  return false;
}

// ------------------------------------------------------------------ holders: object + raw element access
template <class T, sz R, sz C> struct static_matrix_holder
{
  static std::string name() { return "static"; }
  using M = fm::static_<T, R, C>;
  M obj{fcppt::no_init{}};
  explicit static_matrix_holder(std::vector<T> const &e)
  {
    for (sz i = 0; i < R * C; ++i)
      obj.storage()[i] = e[i];
  }
  M &m() { return obj; }
  std::vector<T> raw() const
  {
    std::vector<T> r;
    for (sz i = 0; i < R * C; ++i)
      r.push_back(obj.storage()[i]);
    return r;
  }
  bool decoys_ok() const { return true; }
};
template <class T, sz R, sz C> struct block_matrix_holder
{
  static std::string name() { return "block_view"; }
  static constexpr sz P = C + 1;
  using M = fm::object<T, R, C, block_storage<T, R, C, P>>;
  std::unique_ptr<T[]> p;
  M obj;
  static constexpr sz size = (R - 1) * P + C;
  explicit block_matrix_holder(std::vector<T> const &e) : p(new T[size]), obj(block_storage<T, R, C, P>(p.get()))
  {
    for (sz q = 0; q < size; ++q)
      p[q] = scalar_traits<T>::mark(900 + q);
    for (sz i = 0; i < R * C; ++i)
      p[(i / C) * P + i % C] = e[i];
  }
  M &m() { return obj; }
  std::vector<T> raw() const
  {
    std::vector<T> r;
    for (sz i = 0; i < R * C; ++i)
      r.push_back(p[(i / C) * P + i % C]);
    return r;
  }
  bool decoys_ok() const
  {
    for (sz q = 0; q < size; ++q)
      if (q % P == C && !(p[q] == scalar_traits<T>::mark(900 + q)))
        return false;
    return true;
  }
};

// ------------------------------------------------------------------ matrix accessors
inline constexpr int matrix_accessors = 5;
inline char const *const matrix_accessor_name[] = {"at_r_c", "at_r.at", "get_unsafe.get_unsafe", "mRC", "at_r.named"};
template <int Acc, sz r, sz c, class M> decltype(auto) macc(M &m)
{
  if constexpr (Acc == 0)
    return fm::at_r_c<r, c>(m);
  else if constexpr (Acc == 1)
  {
    auto row = fm::at_r<r>(m);
    return fv::at<c>(row);
  }
  else if constexpr (Acc == 2)
    return m.get_unsafe(r).get_unsafe(c);
  else if constexpr (Acc == 3)
  {
    if constexpr (r == 0 && c == 0) return m.m00();
    else if constexpr (r == 0 && c == 1) return m.m01();
    else if constexpr (r == 0 && c == 2) return m.m02();
    else if constexpr (r == 0 && c == 3) return m.m03();
    else if constexpr (r == 1 && c == 0) return m.m10();
    else if constexpr (r == 1 && c == 1) return m.m11();
    else if constexpr (r == 1 && c == 2) return m.m12();
    else if constexpr (r == 1 && c == 3) return m.m13();
    else if constexpr (r == 2 && c == 0) return m.m20();
    else if constexpr (r == 2 && c == 1) return m.m21();
    else if constexpr (r == 2 && c == 2) return m.m22();
    else if constexpr (r == 2 && c == 3) return m.m23();
    else if constexpr (r == 3 && c == 0) return m.m30();
    else if constexpr (r == 3 && c == 1) return m.m31();
    else if constexpr (r == 3 && c == 2) return m.m32();
    else return m.m33();
  }
  else
  {
    auto row = fm::at_r<r>(m);
    if constexpr (c == 0) return row.x();
    else if constexpr (c == 1) return row.y();
    else if constexpr (c == 2) return row.z();
    else return row.w();
  }
}
// one table entry per (accessor, row, column): the test body below is compiled once and
// runs over the table at run time
template <class T, class M> struct matrix_entry
{
  int acc;
  sz r, c;
  void (*apply)(M &, int, T const &); // op 0: =, 1: +=, 2: *=, 3: -=
  T (*get)(M &);
  T (*cget)(M const &);
  bool is_ref, is_cref;
};
template <int A, sz r, sz c, class T, class M> void apply_m(M &m, int op, T const &v)
{
  switch (op)
  {
  case 0: macc<A, r, c>(m) = v; break;
  case 1: macc<A, r, c>(m) += v; break;
  case 2: macc<A, r, c>(m) *= v; break;
  default: macc<A, r, c>(m) -= v; break;
  }
}
template <int A, sz r, sz c, class T, class M> T get_m(M &m) { return macc<A, r, c>(m); }
template <int A, sz r, sz c, class T, class M> T cget_m(M const &m) { return macc<A, r, c>(m); }
template <class T, sz R, sz C, class M> std::vector<matrix_entry<T, M>> matrix_table()
{
  std::vector<matrix_entry<T, M>> t;
  static_for<matrix_accessors>([&](auto ai) {
    constexpr int A = static_cast<int>(decltype(ai)::value);
    static_for_rc<R, C>([&](auto ri, auto ci) {
      constexpr sz r = decltype(ri)::value, c = decltype(ci)::value;
      t.push_back(matrix_entry<T, M>{A, r, c, &apply_m<A, r, c, T, M>, &get_m<A, r, c, T, M>, &cget_m<A, r, c, T, M>,
                                     std::is_same_v<decltype(macc<A, r, c>(std::declval<M &>())), T &>,
                                     std::is_same_v<decltype(macc<A, r, c>(std::declval<M const &>())), T const &>});
    });
  });
  return t;
}
template <class T, class M>
void read_back_matrix(std::vector<matrix_entry<T, M>> const &table, sz C, M &m, std::vector<T> const &want, std::string const &sg, std::string const &what)
{
  M const &cm = m;
  for (auto const &e : table)
  {
    T const a = e.get(m), b = e.cget(cm);
    std::string const an = matrix_accessor_name[e.acc];
    if (!(a == want[e.r * C + e.c]))
      failv(sg + ":read:" + an, what + ", element (" + std::to_string(e.r) + "," + std::to_string(e.c) + ") read back through " + an + ": got " +
                                    scalar_traits<T>::show(a) + " want " + scalar_traits<T>::show(want[e.r * C + e.c]));
    if (!(b == want[e.r * C + e.c]))
      failv(sg + ":const_read:" + an, what + ", element (" + std::to_string(e.r) + "," + std::to_string(e.c) + ") read back through " + an +
                                          " (const object): got " + scalar_traits<T>::show(b) + " want " + scalar_traits<T>::show(want[e.r * C + e.c]));
  }
}

template <class T, sz R, sz C, class Holder> void matrix_write_access()
{
  using tr = scalar_traits<T>;
  using M = typename Holder::M;
  std::string const tn = tr::name;
  std::string const fn = "write_access<" + tn + ",matrix " + shape(R, C) + "," + Holder::name() + ">";
  std::vector<T> base;
  for (sz i = 0; i < R * C; ++i)
    base.push_back(tr::mark(10 + 3 * static_cast<long>(i)));
  auto const table = matrix_table<T, R, C, M>();
  for (auto const &e : table)
  {
    std::string const an = matrix_accessor_name[e.acc];
    std::string const sg = "write_access<" + tn + ">:matrix:" + an;
    if (!vrt::begin_text(fn.c_str(), fn + " accessor=" + an + " r=" + std::to_string(e.r) + " c=" + std::to_string(e.c)))
      continue;
    vrt::nontrivial(R * C > 1);
    vrt::maybe_sample();
    Holder h(base);
    // the exact result type is a typedef detail (a proxy reference with working writes would be as good): recorded only;
    // what is judged is the behaviour -- the write arrives (":assign"/":compound") and reads agree
    if (!e.is_ref)
      vrt::count("info:" + sg + ":result_type");
    if (!e.is_cref)
      vrt::count("info:" + sg + ":result_type:const");
    std::vector<T> want = base;
    sz const at = e.r * C + e.c;
    read_back_matrix(table, C, h.m(), want, sg, "before any write");
    e.apply(h.m(), 0, tr::mark(77));
    want[at] = tr::mark(77);
    if (!expect_all(h.raw(), want, sg + ":assign", "accessor(m) = x, raw elements"))
      continue; // the write was lost: everything after it would only repeat that
    read_back_matrix(table, C, h.m(), want, sg, "after accessor(m) = x");
    e.apply(h.m(), 1, tr::mark(5));
    want[at] += tr::mark(5);
    if (!expect_all(h.raw(), want, sg + ":compound", "accessor(m) += y, raw elements"))
      continue;
    e.apply(h.m(), 2, tr::mark(2));
    want[at] *= tr::mark(2);
    e.apply(h.m(), 3, tr::mark(1));
    want[at] -= tr::mark(1);
    expect_all(h.raw(), want, sg + ":compound", "accessor(m) *= z; accessor(m) -= w, raw elements");
    read_back_matrix(table, C, h.m(), want, sg, "after the compound assignments");
    C14_TRUE(h.decoys_ok(), sg + ":decoy", "a write through the accessor changed memory outside the matrix");
  }
  // whole rows through the row view returned by at_r
  static_for<R>([&](auto ri) {
    constexpr sz r = decltype(ri)::value;
    std::string const sg = "write_access<" + tn + ">:matrix:at_r";
    if (!vrt::begin_text(fn.c_str(), fn + " accessor=at_r (row view) r=" + std::to_string(r)))
      return;
    vrt::nontrivial(true);
    Holder h(base);
    if (!std::is_same_v<decltype(fm::at_r<r>(h.m())), typename M::reference> ||
        !std::is_same_v<decltype(fm::at_r<r>(std::declval<M const &>())), typename M::const_reference>)
      vrt::count("info:" + sg + ":result_type"); // typedef equality is recorded, not judged
    fv::static_<T, C> nv{fcppt::no_init{}};
    for (sz c = 0; c < C; ++c)
      nv.storage()[c] = tr::mark(200 + c);
    std::vector<T> want = base;
    {
      auto row = fm::at_r<r>(h.m());
      row = nv;
    }
    for (sz c = 0; c < C; ++c)
      want[r * C + c] = tr::mark(200 + c);
    expect_all(h.raw(), want, sg + ":assign", "at_r<r>(m) = v");
    {
      auto row = fm::at_r<r>(h.m());
      row += nv;
      row *= tr::mark(3);
    }
    for (sz c = 0; c < C; ++c)
    {
      want[r * C + c] += tr::mark(200 + c);
      want[r * C + c] *= tr::mark(3);
    }
    expect_all(h.raw(), want, sg + ":compound", "at_r<r>(m) += v; at_r<r>(m) *= s");
    read_back_matrix(table, C, h.m(), want, sg, "after writes through the row view");
    C14_TRUE(h.decoys_ok(), sg + ":decoy", "a write through the row view changed memory outside the matrix");
  });
}

// ------------------------------------------------------------------ vector / dim accessors
template <bool IsVector, class T, sz N, class S> using vd_object = std::conditional_t<IsVector, fv::object<T, N, S>, fd::object<T, N, S>>;

template <bool IsVector, class T, sz N> struct static_vd_holder
{
  static std::string name() { return "static"; }
  using V = std::conditional_t<IsVector, fv::static_<T, N>, fd::static_<T, N>>;
  V obj{fcppt::no_init{}};
  explicit static_vd_holder(std::vector<T> const &e)
  {
    for (sz i = 0; i < N; ++i)
      obj.storage()[i] = e[i];
  }
  V &v() { return obj; }
  std::vector<T> raw() const
  {
    std::vector<T> r;
    for (sz i = 0; i < N; ++i)
      r.push_back(obj.storage()[i]);
    return r;
  }
  bool decoys_ok() const { return true; }
};
template <bool IsVector, class T, sz N> struct strided_vd_holder
{
  static std::string name() { return "stride3_view"; }
  using V = vd_object<IsVector, T, N, strided_storage<T, N, 3>>;
  static constexpr sz size = (N - 1) * 3 + 1;
  std::unique_ptr<T[]> p;
  V obj;
  explicit strided_vd_holder(std::vector<T> const &e) : p(new T[size]), obj(strided_storage<T, N, 3>(p.get()))
  {
    for (sz q = 0; q < size; ++q)
      p[q] = scalar_traits<T>::mark(900 + q);
    for (sz i = 0; i < N; ++i)
      p[3 * i] = e[i];
  }
  V &v() { return obj; }
  std::vector<T> raw() const
  {
    std::vector<T> r;
    for (sz i = 0; i < N; ++i)
      r.push_back(p[3 * i]);
    return r;
  }
  bool decoys_ok() const
  {
    for (sz q = 0; q < size; ++q)
      if (q % 3 != 0 && !(p[q] == scalar_traits<T>::mark(900 + q)))
        return false;
    return true;
  }
};

inline constexpr int vd_accessors = 4;
inline char const *const vd_accessor_name[] = {"at", "named", "get_unsafe", "storage"};
template <bool IsVector, int Acc, sz i, class V> decltype(auto) vacc(V &v)
{
  if constexpr (Acc == 0)
  {
    if constexpr (IsVector)
      return fv::at<i>(v);
    else
      return fd::at<i>(v);
  }
  else if constexpr (Acc == 1)
  {
    if constexpr (IsVector)
    {
      if constexpr (i == 0) return v.x();
      else if constexpr (i == 1) return v.y();
      else if constexpr (i == 2) return v.z();
      else return v.w();
    }
    else
    {
      if constexpr (i == 0) return v.w();
      else if constexpr (i == 1) return v.h();
      else return v.d();
    }
  }
  else if constexpr (Acc == 2)
    return v.get_unsafe(i);
  else
    return v.storage()[i];
}
template <bool IsVector, int Acc, sz i> constexpr bool vacc_exists() { return Acc != 1 || i < (IsVector ? 4U : 3U); }

template <class T, class V> struct vd_entry
{
  int acc;
  sz i;
  void (*apply)(V &, int, T const &);
  T (*get)(V &);
  T (*cget)(V const &);
  bool is_ref, is_cref;
};
template <bool IsVector, int A, sz i, class T, class V> void apply_v(V &v, int op, T const &x)
{
  switch (op)
  {
  case 0: vacc<IsVector, A, i>(v) = x; break;
  case 1: vacc<IsVector, A, i>(v) += x; break;
  case 2: vacc<IsVector, A, i>(v) *= x; break;
  default: vacc<IsVector, A, i>(v) -= x; break;
  }
}
template <bool IsVector, int A, sz i, class T, class V> T get_v(V &v) { return vacc<IsVector, A, i>(v); }
template <bool IsVector, int A, sz i, class T, class V> T cget_v(V const &v) { return vacc<IsVector, A, i>(v); }
template <bool IsVector, class T, sz N, class V> std::vector<vd_entry<T, V>> vd_table()
{
  std::vector<vd_entry<T, V>> t;
  static_for<vd_accessors>([&](auto ai) {
    constexpr int A = static_cast<int>(decltype(ai)::value);
    static_for<N>([&](auto ii) {
      constexpr sz i = decltype(ii)::value;
      if constexpr (vacc_exists<IsVector, A, i>())
        t.push_back(vd_entry<T, V>{A, i, &apply_v<IsVector, A, i, T, V>, &get_v<IsVector, A, i, T, V>, &cget_v<IsVector, A, i, T, V>,
                                   std::is_same_v<decltype(vacc<IsVector, A, i>(std::declval<V &>())), T &>,
                                   std::is_same_v<decltype(vacc<IsVector, A, i>(std::declval<V const &>())), T const &>});
    });
  });
  return t;
}
template <class T, class V>
void read_back_vd(std::vector<vd_entry<T, V>> const &table, V &v, std::vector<T> const &want, std::string const &sg, std::string const &what)
{
  V const &cv = v;
  for (auto const &e : table)
  {
    T const a = e.get(v), b = e.cget(cv);
    std::string const an = vd_accessor_name[e.acc];
    if (!(a == want[e.i]))
      failv(sg + ":read:" + an, what + ", component " + std::to_string(e.i) + " read back through " + an + ": got " + scalar_traits<T>::show(a) + " want " +
                                    scalar_traits<T>::show(want[e.i]));
    if (!(b == want[e.i]))
      failv(sg + ":const_read:" + an, what + ", component " + std::to_string(e.i) + " read back through " + an + " (const object): got " +
                                          scalar_traits<T>::show(b) + " want " + scalar_traits<T>::show(want[e.i]));
  }
}

template <bool IsVector, class T, sz N, class Holder> void vd_write_access()
{
  using tr = scalar_traits<T>;
  using V = typename Holder::V;
  std::string const tn = tr::name;
  std::string const kind = IsVector ? "vector" : "dim";
  std::string const fn = "write_access<" + tn + "," + kind + " " + std::to_string(N) + "," + Holder::name() + ">";
  std::vector<T> base;
  for (sz i = 0; i < N; ++i)
    base.push_back(tr::mark(10 + 3 * static_cast<long>(i)));
  auto const table = vd_table<IsVector, T, N, V>();
  for (auto const &e : table)
  {
    std::string const an = vd_accessor_name[e.acc];
    std::string const sg = "write_access<" + tn + ">:" + kind + ":" + an;
    if (!vrt::begin_text(fn.c_str(), fn + " accessor=" + an + " i=" + std::to_string(e.i)))
      continue;
    vrt::nontrivial(N > 1);
    vrt::maybe_sample();
    Holder h(base);
    // the exact result type is a typedef detail (a proxy reference with working writes would be as good): recorded only;
    // what is judged is the behaviour -- the write arrives (":assign"/":compound") and reads agree
    if (!e.is_ref)
      vrt::count("info:" + sg + ":result_type");
    if (!e.is_cref)
      vrt::count("info:" + sg + ":result_type:const");
    std::vector<T> want = base;
    read_back_vd(table, h.v(), want, sg, "before any write");
    e.apply(h.v(), 0, tr::mark(77));
    want[e.i] = tr::mark(77);
    if (!expect_all(h.raw(), want, sg + ":assign", "accessor(v) = x, raw elements"))
      continue; // the write was lost: everything after it would only repeat that
    read_back_vd(table, h.v(), want, sg, "after accessor(v) = x");
    e.apply(h.v(), 1, tr::mark(5));
    want[e.i] += tr::mark(5);
    e.apply(h.v(), 2, tr::mark(2));
    want[e.i] *= tr::mark(2);
    e.apply(h.v(), 3, tr::mark(1));
    want[e.i] -= tr::mark(1);
    expect_all(h.raw(), want, sg + ":compound", "accessor(v) += y; *= z; -= w, raw elements");
    read_back_vd(table, h.v(), want, sg, "after the compound assignments");
    C14_TRUE(h.decoys_ok(), sg + ":decoy", "a write through the accessor changed memory outside the object");
  }
}

template <class T> void all_write_access()
{
  matrix_write_access<T, 2, 3, static_matrix_holder<T, 2, 3>>();
  matrix_write_access<T, 3, 2, static_matrix_holder<T, 3, 2>>();
  matrix_write_access<T, 4, 4, static_matrix_holder<T, 4, 4>>();
  matrix_write_access<T, 2, 3, block_matrix_holder<T, 2, 3>>();
  vd_write_access<true, T, 1, static_vd_holder<true, T, 1>>();
  vd_write_access<true, T, 4, static_vd_holder<true, T, 4>>();
  vd_write_access<true, T, 3, strided_vd_holder<true, T, 3>>();
  vd_write_access<false, T, 3, static_vd_holder<false, T, 3>>();
  vd_write_access<false, T, 2, strided_vd_holder<false, T, 2>>();
}
}
}

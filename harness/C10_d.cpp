// C10, part d: enums with 33 and 64 enumerators (structured family)
#include "C10_common.hpp"

namespace c10
{
void register_d()
{
  register_enum<e33, 33>("e33", 2, 4);
  register_enum<e64, 64>("e64", 2, 4);
}
}

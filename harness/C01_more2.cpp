// C01, part 8: casts that no other harness reaches.
//   cast::dynamic_any / dynamic_cross / dynamic on a hierarchy with multiple, virtual and ambiguous bases,
//   unique_ptr_dynamic_cast, dynamic_ / static_ / const_pointer_cast, variant::dynamic_cast_,
//   cast::promote_int / enum_to_underlying / safe_numeric / to_char_ptr / to_void_ptr / to_uint_ptr.
// The reference is the built-in dynamic_cast / static_cast on pointers.  Casts that their documentation calls unsafe
// (float_to_int, int_to_float, enum_to_int, int_to_enum, from_void_ptr, static_downcast) are not registered.
#include "C01_common.hpp"

#include <fcppt/const_pointer_cast.hpp>
#include <fcppt/dynamic_pointer_cast.hpp>
#include <fcppt/make_shared_ptr.hpp>
#include <fcppt/make_unique_ptr.hpp>
#include <fcppt/reference_impl.hpp>
#include <fcppt/shared_ptr_impl.hpp>
#include <fcppt/static_pointer_cast.hpp>
#include <fcppt/unique_ptr_dynamic_cast.hpp>
#include <fcppt/unique_ptr_impl.hpp>
#include <fcppt/cast/dynamic.hpp>
#include <fcppt/cast/dynamic_any.hpp>
#include <fcppt/cast/dynamic_any_fun.hpp>
#include <fcppt/cast/dynamic_cross.hpp>
#include <fcppt/cast/dynamic_cross_fun.hpp>
#include <fcppt/cast/dynamic_fun.hpp>
#include <fcppt/cast/enum_to_underlying.hpp>
#include <fcppt/cast/promote_int.hpp>
#include <fcppt/cast/safe_numeric.hpp>
#include <fcppt/cast/to_char_ptr.hpp>
#include <fcppt/cast/to_uint_ptr.hpp>
#include <fcppt/cast/to_void_ptr.hpp>
#include <fcppt/mpl/list/object.hpp>
#include <fcppt/optional/reference.hpp>
#include <fcppt/variant/dynamic_cast.hpp>
#include <fcppt/variant/get_unsafe.hpp>
#include <fcppt/variant/holds_type.hpp>
#include <fcppt/variant/object_impl.hpp>
#include <fcppt/optional/object_impl.hpp>

#include <cstdint>
#include <string>
#include <type_traits>
#include <utility>

using namespace c01;

namespace
{
// ============================================================ casts on a class hierarchy
// A is a plain polymorphic base; BX has a second polymorphic base X (cross casts, pointer adjustment); VW reaches A through
// two virtual paths; Amb contains two distinct A subobjects (a cross cast X -> A is ambiguous and must fail).
int destroyed = 0;
struct A
{
  virtual ~A() { ++destroyed; }
  int a = 1;
};
struct B : A
{
};
struct C : A
{
};
struct X
{
  virtual ~X() = default;
  int x = 2;
};
struct BX : B, X
{
};
struct V : virtual A
{
};
struct W : virtual A
{
};
struct VW : V, W, X
{
};
struct D1 : A
{
};
struct D2 : A
{
};
struct Amb : D1, D2, X
{
};

template <class... T> struct types
{
};
template <class T> struct tag
{
  using type = T;
};
template <class T> char const *cname();
#define C01_CN(T) \
  template <> char const *cname<T>() { return #T; }
C01_CN(A) C01_CN(B) C01_CN(C) C01_CN(X) C01_CN(BX) C01_CN(V) C01_CN(W) C01_CN(VW) C01_CN(D1) C01_CN(D2) C01_CN(Amb)
#undef C01_CN

using all_classes = types<A, B, C, X, BX, V, W, VW, D1, D2, Amb>;
template <class F, class... T> void for_types(types<T...>, F f) { (f(tag<T>{}), ...); }

// one cast function on one (dynamic type, static source type, target type) triple; the reference is the built-in dynamic_cast
template <class Target, class Src, class Fn>
void cast_case(entry &e, int obj, int src, int tgt, Src &ref, void const *most_derived, Fn fn)
{
  for (int cv = 0; cv < 2; ++cv)
  {
    if (!e.begin(obj, src, tgt, cv))
      continue;
    Target *const want = dynamic_cast<Target *>(&ref);
    vrt::nontrivial(want == nullptr || static_cast<void const *>(want) != static_cast<void const *>(&ref));
    vrt::maybe_sample();
    guarded(e.name, [&] {
      void const *got = nullptr;
      bool has = false;
      if (cv == 0)
      {
        fcppt::optional::reference<Target> const r = fn(tag<Target>{}, ref);
        has = r.has_value();
        if (has)
          got = &r.get_unsafe().get();
      }
      else
      {
        Src const &cref = ref;
        fcppt::optional::reference<Target const> const r = fn(tag<Target const>{}, cref);
        has = r.has_value();
        if (has)
          got = &r.get_unsafe().get();
      }
      VRT_CHECK(has == (want != nullptr), e.name + (want ? ":missing" : ":spurious"), "%s viewed as %s -> %s%s: has_value=%d", "object",
                cname<Src>(), cname<Target>(), cv ? " const" : "", (int)has);
      if (has && want)
        VRT_CHECK(got == static_cast<void const *>(want) && dynamic_cast<void const *>(want) == most_derived, e.name + ":wrong_object",
                  "reference to another (sub)object");
    });
  }
}

// the built-in reference cast is ill-formed for an up cast to an ambiguous base (Amb -> A)
template <class Src, class Target> constexpr bool castable = !std::is_base_of_v<Target, Src> || std::is_convertible_v<Src *, Target *>;
// number of A subobjects (A::~A counts destructions)
template <class Obj> constexpr int a_subobjects = std::is_same_v<Obj, Amb> ? 2 : (std::is_base_of_v<A, Obj> ? 1 : 0);

struct fn_any
{
  template <class T, class R> auto operator()(tag<T>, R &r) const { return fcppt::cast::dynamic_any<T>(r); }
};
struct fn_cross
{
  template <class T, class R> auto operator()(tag<T>, R &r) const { return fcppt::cast::dynamic_cross<T>(r); }
};
struct fn_dyn
{
  template <class T, class R> auto operator()(tag<T>, R &r) const { return fcppt::cast::dynamic<T>(r); }
};

template <class Obj> void casts_for_object(entry &e_any, entry &e_cross, entry &e_dyn, int obj)
{
  Obj object;
  void const *const most_derived = dynamic_cast<void const *>(&object);
  int src = 0;
  for_types(all_classes{}, [&](auto stag) {
    using Src = typename decltype(stag)::type;
    int const s = src++;
    if constexpr (std::is_convertible_v<Obj *, Src *>)
    {
      Src &ref = object;
      int tgt = 0;
      for_types(all_classes{}, [&](auto ttag) {
        using Target = typename decltype(ttag)::type;
        int const t = tgt++;
        if constexpr (castable<Src, Target>)
        {
        cast_case<Target>(e_any, obj, s, t, ref, most_derived, fn_any{});
        if constexpr (!std::is_base_of_v<Src, Target>)
          cast_case<Target>(e_cross, obj, s, t, ref, most_derived,
                            fn_cross{});
        // cast::dynamic: Target must inherit from Src; an ambiguous base (A of Amb) makes the built-in cast ill-formed
        if constexpr (std::is_base_of_v<Src, Target> && (std::is_same_v<Src, Target> || std::is_convertible_v<Target *, Src *>))
          cast_case<Target>(e_dyn, obj, s, t, ref, most_derived, fn_dyn{});
        }
      });
    }
  });
}

template <class Cast, class Base, class Derived, class Obj> void unique_case(entry &e, int id)
{
  if (!e.begin(id))
    return;
  vrt::nontrivial(true);
  vrt::maybe_sample();
  guarded(e.name, [&] {
    destroyed = 0;
    {
      Obj *const raw = new Obj();
      Base *const as_base = raw;
      Derived *const want = dynamic_cast<Derived *>(as_base);
      fcppt::unique_ptr<Base> source{as_base};
      auto result = fcppt::unique_ptr_dynamic_cast<Cast, Derived>(std::move(source));
      bool const is_derived = fcppt::variant::holds_type<fcppt::unique_ptr<Derived>>(result);
      VRT_CHECK(is_derived == (want != nullptr), e.name + (want ? ":missing" : ":spurious"), "case %d: variant holds %s", id,
                is_derived ? "Derived" : "Base");
      if (is_derived && want)
        VRT_CHECK(fcppt::variant::get_unsafe<fcppt::unique_ptr<Derived>>(result).get_pointer() == want, e.name + ":wrong_object", "case %d", id);
      if (!is_derived && !want)
        VRT_CHECK(fcppt::variant::get_unsafe<fcppt::unique_ptr<Base>>(result).get_pointer() == as_base, e.name + ":wrong_object", "case %d", id);
      VRT_CHECK(destroyed == 0, e.name + ":early_destruction", "case %d: object destroyed during the cast", id);
    }
    int const subobjects = a_subobjects<Obj>;
    VRT_CHECK(destroyed == subobjects, e.name + ":ownership", "case %d: %d destructor calls of A instead of %d", id, destroyed, subobjects);
  });
}

template <class Dest, class Source, class Obj> void shared_dynamic_case(entry &e, int id)
{
  if (!e.begin(id))
    return;
  vrt::nontrivial(true);
  vrt::maybe_sample();
  guarded(e.name, [&] {
    destroyed = 0;
    {
      fcppt::shared_ptr<Obj> const owner{fcppt::make_shared_ptr<Obj>()};
      fcppt::shared_ptr<Source> const source{owner};
      Dest *const want = dynamic_cast<Dest *>(source.get_pointer());
      long const before = static_cast<long>(source.use_count());
      {
        fcppt::optional::object<fcppt::shared_ptr<Dest>> const r = fcppt::dynamic_pointer_cast<Dest>(source);
        VRT_CHECK(r.has_value() == (want != nullptr), e.name + (want ? ":missing" : ":spurious"), "case %d: has_value=%d", id, (int)r.has_value());
        if (r.has_value() && want)
        {
          VRT_CHECK(r.get_unsafe().get_pointer() == want, e.name + ":wrong_object", "case %d", id);
          VRT_CHECK(static_cast<long>(source.use_count()) == before + 1, e.name + ":ownership", "case %d: use_count %ld after %ld", id, static_cast<long>(source.use_count()), before);
        }
      }
      VRT_CHECK(static_cast<long>(source.use_count()) == before && destroyed == 0, e.name + ":ownership", "case %d: use_count %ld / %d destroyed after the result died", id,
                static_cast<long>(source.use_count()), destroyed);
    }
    VRT_CHECK(destroyed == a_subobjects<Obj>, e.name + ":ownership", "case %d: object not destroyed", id);
  });
}

template <class Dest, class Source, class Obj> void shared_static_case(entry &e, int id)
{
  if (!e.begin(id))
    return;
  vrt::nontrivial(!std::is_same_v<Dest, Source>);
  guarded(e.name, [&] {
    destroyed = 0;
    {
      fcppt::shared_ptr<Obj> const owner{fcppt::make_shared_ptr<Obj>()};
      fcppt::shared_ptr<Source> const source{owner};
      long const before = static_cast<long>(source.use_count());
      fcppt::shared_ptr<Dest> const r = fcppt::static_pointer_cast<Dest>(source);
      VRT_CHECK(r.get_pointer() == static_cast<Dest *>(source.get_pointer()) && dynamic_cast<void const *>(r.get_pointer()) == owner.get_pointer(),
                e.name + ":wrong_object", "case %d", id);
      VRT_CHECK(static_cast<long>(source.use_count()) == before + 1, e.name + ":ownership", "case %d: use_count %ld after %ld", id, static_cast<long>(source.use_count()), before);
      // const_pointer_cast on the same object
      fcppt::shared_ptr<Dest const> const cr{r};
      fcppt::shared_ptr<Dest> const back = fcppt::const_pointer_cast<Dest>(cr);
      VRT_CHECK(back.get_pointer() == r.get_pointer() && static_cast<long>(source.use_count()) == before + 3, "const_pointer_cast:wrong", "case %d: use_count %ld", id,
                static_cast<long>(source.use_count()));
    }
    VRT_CHECK(destroyed == a_subobjects<Obj>, e.name + ":ownership", "case %d: object not destroyed", id);
  });
}

template <class List, class Cast, class Base, class Obj> void variant_case(entry &e, int id, int want_index)
{
  if (!e.begin(id))
    return;
  vrt::nontrivial(want_index != 0);
  vrt::maybe_sample();
  guarded(e.name, [&] {
    Obj object;
    Base &base = object;
    auto const r = fcppt::variant::dynamic_cast_<List, Cast>(base);
    VRT_CHECK(r.has_value() == (want_index >= 0), e.name + (want_index >= 0 ? ":missing" : ":spurious"), "case %d: has_value=%d", id, (int)r.has_value());
    if (r.has_value() && want_index >= 0)
      VRT_CHECK(static_cast<int>(r.get_unsafe().type_index()) == want_index, e.name + ":wrong_alternative", "case %d: alternative %d instead of %d", id,
                static_cast<int>(r.get_unsafe().type_index()), want_index);
  });
}

void casts_all()
{
  {
    entry e_any("cast::dynamic_any");
    entry e_cross("cast::dynamic_cross");
    entry e_dyn("cast::dynamic/hierarchy");
    casts_for_object<A>(e_any, e_cross, e_dyn, 0);
    casts_for_object<B>(e_any, e_cross, e_dyn, 1);
    casts_for_object<C>(e_any, e_cross, e_dyn, 2);
    casts_for_object<X>(e_any, e_cross, e_dyn, 3);
    casts_for_object<BX>(e_any, e_cross, e_dyn, 4);
    casts_for_object<V>(e_any, e_cross, e_dyn, 5);
    casts_for_object<VW>(e_any, e_cross, e_dyn, 6);
    casts_for_object<D1>(e_any, e_cross, e_dyn, 7);
    casts_for_object<Amb>(e_any, e_cross, e_dyn, 8);
  }
  {
    entry e("unique_ptr_dynamic_cast");
    using dyn = fcppt::cast::dynamic_fun;
    using any = fcppt::cast::dynamic_any_fun;
    unique_case<dyn, A, B, A>(e, 0);
    unique_case<dyn, A, B, B>(e, 1);
    unique_case<dyn, A, B, C>(e, 2);
    unique_case<dyn, A, B, BX>(e, 3);
    unique_case<dyn, A, BX, B>(e, 4);
    unique_case<dyn, A, BX, BX>(e, 5);
    unique_case<dyn, X, BX, BX>(e, 6); // X is the second base: the pointer is adjusted
    unique_case<dyn, X, BX, X>(e, 7);
    unique_case<dyn, X, BX, VW>(e, 8);
    unique_case<dyn, A, VW, VW>(e, 9); // downcast from a virtual base
    unique_case<dyn, A, V, VW>(e, 10);
    unique_case<dyn, A, VW, V>(e, 11);
    unique_case<dyn, X, Amb, Amb>(e, 12);
    unique_case<dyn, D1, Amb, Amb>(e, 13);
    unique_case<dyn, D1, Amb, D1>(e, 14);
    unique_case<any, A, B, B>(e, 15);
    unique_case<any, A, B, C>(e, 16);
    unique_case<any, X, BX, BX>(e, 17);
    unique_case<any, A, VW, VW>(e, 18);
  }
  {
    entry e("dynamic_pointer_cast");
    shared_dynamic_case<B, A, A>(e, 0);
    shared_dynamic_case<B, A, B>(e, 1);
    shared_dynamic_case<B, A, C>(e, 2);
    shared_dynamic_case<B, A, BX>(e, 3);
    shared_dynamic_case<BX, A, BX>(e, 4);
    shared_dynamic_case<BX, A, B>(e, 5);
    shared_dynamic_case<BX, X, BX>(e, 6);
    shared_dynamic_case<BX, X, X>(e, 7);
    shared_dynamic_case<BX, X, VW>(e, 8);
    shared_dynamic_case<VW, A, VW>(e, 9);
    shared_dynamic_case<VW, A, V>(e, 10);
    shared_dynamic_case<V, A, VW>(e, 11);
    shared_dynamic_case<Amb, X, Amb>(e, 12);
    shared_dynamic_case<Amb, D1, Amb>(e, 13);
    shared_dynamic_case<Amb, D2, Amb>(e, 14);
    shared_dynamic_case<A, A, B>(e, 15);
    shared_dynamic_case<B const, A const, B>(e, 16);
    shared_dynamic_case<B const, A const, C>(e, 17);
  }
  {
    // static_pointer_cast documents undefined behaviour for a cast that is not well formed: only up casts and down casts to
    // a type the object really has; const_pointer_cast on the result
    entry e("static_pointer_cast/const_pointer_cast");
    shared_static_case<A, A, A>(e, 0);
    shared_static_case<A, B, B>(e, 1);
    shared_static_case<B, A, B>(e, 2);
    shared_static_case<B, A, BX>(e, 3);
    shared_static_case<BX, A, BX>(e, 4);
    shared_static_case<BX, X, BX>(e, 5);
    shared_static_case<X, BX, BX>(e, 6);
    shared_static_case<A, VW, VW>(e, 7);
    shared_static_case<Amb, D2, Amb>(e, 8);
    shared_static_case<D2, Amb, Amb>(e, 9);
  }
  {
    entry e("variant::dynamic_cast_");
    using dyn = fcppt::cast::dynamic_fun;
    using any = fcppt::cast::dynamic_any_fun;
    using l_bc = fcppt::mpl::list::object<B, C>;
    using l_bxb = fcppt::mpl::list::object<BX, B, C>;
    using l_bbx = fcppt::mpl::list::object<B, BX>;
    using l_vw = fcppt::mpl::list::object<VW, V, W>;
    using l_x = fcppt::mpl::list::object<Amb, VW, BX>;
    variant_case<l_bc, dyn, A, A>(e, 0, -1);
    variant_case<l_bc, dyn, A, B>(e, 1, 0);
    variant_case<l_bc, dyn, A, C>(e, 2, 1);
    variant_case<l_bc, dyn, A, BX>(e, 3, 0);
    variant_case<l_bxb, dyn, A, BX>(e, 4, 0);
    variant_case<l_bxb, dyn, A, B>(e, 5, 1);
    variant_case<l_bxb, dyn, A, C>(e, 6, 2);
    variant_case<l_bxb, dyn, A, A>(e, 7, -1);
    variant_case<l_bbx, dyn, A, BX>(e, 8, 0);
    variant_case<l_vw, dyn, A, VW>(e, 9, 0);
    variant_case<l_vw, dyn, A, V>(e, 10, 1);
    variant_case<l_vw, dyn, A, W>(e, 11, 2);
    variant_case<l_vw, dyn, A, B>(e, 12, -1);
    variant_case<l_x, dyn, X, Amb>(e, 13, 0);
    variant_case<l_x, dyn, X, VW>(e, 14, 1);
    variant_case<l_x, dyn, X, BX>(e, 15, 2);
    variant_case<l_x, dyn, X, X>(e, 16, -1);
    variant_case<l_bc, any, X, BX>(e, 17, 0);
    variant_case<l_bc, any, X, VW>(e, 18, -1);
  }
}

// ============================================================ value casts that are documented as safe
enum class eu8 : std::uint8_t { lo = 0, hi = 255 };
enum class ei16 : std::int16_t { lo = -32768, hi = 32767 };

template <class T> void promote_for(char const *tn)
{
  entry e(std::string("cast::promote_int<") + tn + ">");
  for (i128 v = lo<T>(); v <= hi<T>(); ++v)
  {
    T const x = static_cast<T>(v);
    if (!e.begin(x))
      continue;
    vrt::nontrivial(v == lo<T>() || v == hi<T>() || v < 0);
    guarded(e.name, [&] {
      auto const r = fcppt::cast::promote_int(x);
      static_assert(std::is_same_v<decltype(r), decltype(+x) const>);
      VRT_CHECK(static_cast<i128>(r) == v, e.name + ":wrong", "got %lld want %lld", (long long)r, (long long)as64(v));
    });
  }
}

void value_casts_all()
{
  promote_for<u8>("u8");
  promote_for<i8>("i8");
  promote_for<u16>("u16");
  promote_for<i16>("i16");
  promote_for<char>("char");
  promote_for<bool>("bool");
  {
    entry e("cast::promote_int<32/64 bit>");
    auto run = [&](auto tag, int id) {
      using T = decltype(tag);
      for (T v : lattice<T>())
      {
        if (!e.begin(id, v))
          continue;
        vrt::nontrivial(true);
        guarded(e.name, [&] { VRT_CHECK(fcppt::cast::promote_int(v) == v, e.name + ":wrong", "value changed"); });
      }
    };
    run(i32{}, 0);
    run(u32{}, 1);
    run(i64{}, 2);
    run(u64{}, 3);
  }
  {
    entry e("cast::enum_to_underlying");
    for (int v = 0; v < 256; ++v)
    {
      if (!e.begin(0, v))
        continue;
      vrt::nontrivial(v == 0 || v == 255);
      guarded(e.name, [&] { VRT_CHECK(fcppt::cast::enum_to_underlying(static_cast<eu8>(v)) == v, e.name + ":wrong", "value %d", v); });
    }
    for (int v = -32768; v < 32768; ++v)
    {
      if (!e.begin(1, v))
        continue;
      vrt::nontrivial(v < 0 || v == 32767);
      guarded(e.name, [&] { VRT_CHECK(fcppt::cast::enum_to_underlying(static_cast<ei16>(v)) == v, e.name + ":wrong", "value %d", v); });
    }
  }
  {
    entry e("cast::safe_numeric");
    auto run = [&](auto dtag, auto stag, int id) {
      using D = decltype(dtag);
      using S = decltype(stag);
      for (S v : domain<S>())
      {
        if (!e.begin(id, v))
          continue;
        vrt::nontrivial(static_cast<i128>(v) == lo<S>() || static_cast<i128>(v) == hi<S>());
        guarded(e.name, [&] {
          VRT_CHECK(static_cast<i128>(fcppt::cast::safe_numeric<D>(v)) == static_cast<i128>(v), e.name + ":wrong", "value changed (pair %d)", id);
        });
      }
    };
    run(u16{}, u8{}, 0);
    run(i16{}, i8{}, 1);
    run(u32{}, u16{}, 2);
    run(i32{}, i16{}, 3);
    run(u64{}, u32{}, 4);
    run(i64{}, i32{}, 5);
    run(i64{}, i64{}, 6);
    run(u64{}, u64{}, 7);
    float const fl[] = {0.F, -0.F, 1.F, std::numeric_limits<float>::max(), std::numeric_limits<float>::lowest(), std::numeric_limits<float>::denorm_min(),
                        std::numeric_limits<float>::infinity()};
    for (int i = 0; i < 7; ++i)
      if (e.begin(8, i))
      {
        vrt::nontrivial(i >= 3);
        guarded(e.name, [&] {
          VRT_CHECK(fcppt::cast::safe_numeric<double>(fl[i]) == static_cast<double>(fl[i]), e.name + ":wrong", "float %d changed", i);
        });
      }
  }
  {
    entry e("cast::to_char_ptr/to_void_ptr/to_uint_ptr");
    int object = 0x01020304;
    int const cobject = 5;
    int *const null = nullptr;
    int *const ptrs[] = {&object, null};
    for (int i = 0; i < 2; ++i)
      if (e.begin(i))
      {
        vrt::nontrivial(i == 1);
        guarded(e.name, [&] {
          int *const p = ptrs[i];
          VRT_CHECK(static_cast<void *>(fcppt::cast::to_char_ptr<unsigned char *>(p)) == static_cast<void *>(p), e.name + ":to_char_ptr", "address changed");
          VRT_CHECK(fcppt::cast::to_void_ptr(p) == static_cast<void *>(p), e.name + ":to_void_ptr", "address changed");
          VRT_CHECK(fcppt::cast::to_uint_ptr(p) == reinterpret_cast<std::uintptr_t>(p), e.name + ":to_uint_ptr", "address changed");
          if (p)
          {
            unsigned char const *const bytes = fcppt::cast::to_char_ptr<unsigned char const *>(&cobject);
            unsigned sum = 0;
            for (std::size_t k = 0; k < sizeof(int); ++k)
              sum += bytes[k];
            VRT_CHECK(sum == 5, e.name + ":to_char_ptr", "object representation not readable");
            VRT_CHECK(fcppt::cast::to_void_ptr(&cobject) == static_cast<void const *>(&cobject), e.name + ":to_void_ptr", "address changed");
          }
        });
      }
  }
}
}

void c01::register_more_casts()
{
  vrt::shard("more_casts", [] {
    casts_all();
    value_casts_all();
  });
}

// C12 compile probe: fcppt::parse::parse_stream(parser, std::istream &) -- "Parses a
// std::basic_istream without whitespace skipping. Calls phrase_parse_stream with
// skipper::epsilon" -- called the way its sibling parse_string is called (all template
// arguments deduced).  Must compile; it is never run.
#include <fcppt/parse/literal.hpp>
#include <fcppt/parse/parse_stream.hpp>
#include <fcppt/parse/result.hpp>
#include <fcppt/unit.hpp>

#include <istream>

bool c12_probe_parse_stream(std::istream &_stream)
{
  fcppt::parse::literal const parser{'a'};
  fcppt::parse::result<char, fcppt::unit> const result{fcppt::parse::parse_stream(parser, _stream)};
  return result.has_success();
}

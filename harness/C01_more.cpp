// C01, part 7: public functions that no other harness reaches.
//   time::gmtime / localtime / output_tm, error::strerror / strerrno, error_code_to_string, getenv, type_name(_from_info,
//   _from_index), args / args_from_second, from_std_string_locale / to_std_string_locale, io::narrow_string, io::widen_string,
//   enum_::max_value / min_value / index_of_array / array_output, FCPPT_CHAR_LITERAL / FCPPT_STRING_LITERAL,
//   options::indent, operator<< of options::error, parse::error, parse::position.
// (C01_more2.cpp: casts; C01_more3.cpp: floating point math, error output of options / parse.)
// Oracle as everywhere in C01: the call returns normally (crash / sanitizer report / hang are attributed to the announced
// case), only the documented exception type escapes, and where the expectation is exact and independent (integer calendar
// arithmetic, the built-in dynamic_cast, std::strerror, ::getenv, identity of the narrow-string configuration) the result
// is compared.  Casts that their documentation calls unsafe (float_to_int, int_to_float, enum_to_int, int_to_enum,
// from_void_ptr, static_downcast) and functions that are documented as not public (matrix::sqrt, matrix::logarithm) are
// not registered.
#include "C01_common.hpp"

#include <fcppt/args.hpp>
#include <fcppt/args_char.hpp>
#include <fcppt/args_from_second.hpp>
#include <fcppt/args_vector.hpp>
#include <fcppt/char_literal.hpp>
#include <fcppt/error_code_to_string.hpp>
#include <fcppt/from_std_string_locale.hpp>
#include <fcppt/getenv.hpp>
#include <fcppt/optional_std_string.hpp>
#include <fcppt/string.hpp>
#include <fcppt/string_literal.hpp>
#include <fcppt/string_view.hpp>
#include <fcppt/to_std_string_locale.hpp>
#include <fcppt/type_name.hpp>
#include <fcppt/type_name_from_index.hpp>
#include <fcppt/type_name_from_info.hpp>
#include <fcppt/enum/array_impl.hpp>
#include <fcppt/enum/array_output.hpp>
#include <fcppt/enum/index_of_array.hpp>
#include <fcppt/enum/max_value.hpp>
#include <fcppt/enum/min_value.hpp>
#include <fcppt/enum/names_array.hpp>
#include <fcppt/enum/to_string_impl_fwd.hpp>
#include <fcppt/error/strerrno.hpp>
#include <fcppt/error/strerror.hpp>
#include <fcppt/io/narrow_string.hpp>
#include <fcppt/io/widen_string.hpp>
#include <fcppt/options/error.hpp>
#include <fcppt/options/error_output.hpp>
#include <fcppt/options/indent.hpp>
#include <fcppt/parse/column.hpp>
#include <fcppt/parse/error.hpp>
#include <fcppt/parse/error_output.hpp>
#include <fcppt/parse/fatal_tag.hpp>
#include <fcppt/parse/line.hpp>
#include <fcppt/parse/location.hpp>
#include <fcppt/parse/position.hpp>
#include <fcppt/parse/position_output.hpp>
#include <fcppt/optional/object_impl.hpp>
#include <fcppt/time/gmtime.hpp>
#include <fcppt/time/localtime.hpp>
#include <fcppt/time/output_tm.hpp>

#include <cerrno>
#include <cstdlib>
#include <cstring>
#include <ctime>
#include <cxxabi.h>
#include <future>
#include <ios>
#include <locale>
#include <sstream>
#include <stdexcept>
#include <string>
#include <system_error>
#include <type_traits>
#include <typeindex>
#include <typeinfo>
#include <utility>

using namespace c01;

// ------------------------------------------------------------ test enums (enum_::to_string needs a specialisation)
namespace
{
enum class en3 : std::uint8_t { a, b, c, fcppt_maximum = c };
enum class en1 { only, fcppt_maximum = only };
enum class en_s16 : std::int16_t { zero, one, fcppt_maximum = one };
char const *const en3_names[] = {"a", "b", "c"};
}
namespace fcppt::enum_
{
template <> struct to_string_impl<en3>
{
  static std::string_view get(en3 const v) { return en3_names[static_cast<unsigned>(v)]; }
};
}

namespace
{
constexpr bool narrow_config = std::is_same_v<fcppt::string, std::string>;

// ============================================================ time
struct civil
{
  i128 year;
  int mon, mday, hour, min, sec, wday, yday;
};

// days-from-epoch -> proleptic Gregorian date, integer arithmetic only (H. Hinnant's civil_from_days, widened to 128 bit)
civil civil_from_time(i128 const t)
{
  i128 days = t / 86400;
  i128 rem = t % 86400;
  if (rem < 0)
  {
    rem += 86400;
    --days;
  }
  i128 const z = days + 719468;
  i128 const era = (z >= 0 ? z : z - 146096) / 146097;
  i128 const doe = z - era * 146097;
  i128 const yoe = (doe - doe / 1460 + doe / 36524 - doe / 146096) / 365;
  i128 y = yoe + era * 400;
  i128 const doy = doe - (365 * yoe + yoe / 4 - yoe / 100);
  i128 const mp = (5 * doy + 2) / 153;
  int const d = static_cast<int>(doy - (153 * mp + 2) / 5 + 1);
  int const m = static_cast<int>(mp < 10 ? mp + 3 : mp - 9);
  if (m <= 2)
    ++y;
  bool const leap = (y % 4 == 0 && y % 100 != 0) || y % 400 == 0;
  static int const cum[12] = {0, 31, 59, 90, 120, 151, 181, 212, 243, 273, 304, 334};
  civil c;
  c.year = y;
  c.mon = m - 1;
  c.mday = d;
  c.hour = static_cast<int>(rem / 3600);
  c.min = static_cast<int>(rem / 60 % 60);
  c.sec = static_cast<int>(rem % 60);
  i128 w = (days + 4) % 7;
  if (w < 0)
    w += 7;
  c.wday = static_cast<int>(w);
  c.yday = cum[m - 1] + d - 1 + ((leap && m > 2) ? 1 : 0);
  return c;
}

bool tm_representable(civil const &c) { return fits<int>(c.year - 1900); }

bool tm_equal(std::tm const &r, civil const &c)
{
  return r.tm_year == static_cast<int>(c.year - 1900) && r.tm_mon == c.mon && r.tm_mday == c.mday && r.tm_hour == c.hour &&
         r.tm_min == c.min && r.tm_sec == c.sec && r.tm_wday == c.wday && r.tm_yday == c.yday;
}

std::string show_tm(std::tm const &r)
{
  return vrt::fmt("%d-%d-%d %d:%d:%d wday %d yday %d", r.tm_year, r.tm_mon, r.tm_mday, r.tm_hour, r.tm_min, r.tm_sec, r.tm_wday,
                  r.tm_yday);
}

std::vector<i64> time_domain()
{
  std::set<i64> s;
  for (i64 v : lattice<i64>())
    s.insert(v);
  // calendar boundaries: years 0, 1, 1000, 1900, 1970, 2000 (leap day), 2038, 2100, 9999 / 10000, and the first / last second
  // whose year - 1900 fits an int
  i64 const marks[] = {-62167219200LL, -62135596800LL, -30610224000LL, -2208988800LL, 0LL,          951782400LL,
                       951868800LL,    2147483647LL,   4102444800LL,   253402300799LL, 32503680000LL, 67768036191676799LL,
                       -67768040609740800LL};
  for (i64 m : marks)
    for (i64 d : {i64(-86400), i64(-1), i64(0), i64(1), i64(86400)})
      s.insert(m + d);
  return std::vector<i64>(s.begin(), s.end());
}

void set_tz(char const *tz)
{
  if (tz)
    ::setenv("TZ", tz, 1);
  else
    ::unsetenv("TZ");
  ::tzset();
}

void time_all()
{
  vrt::info("documented_exception:time::gmtime,localtime", "\"std::runtime_error (gmtime.hpp / localtime.hpp: \\\\throw std::runtime_error on failure)\"");
  auto const dom = time_domain();
  {
    entry e("time::gmtime");
    for (i64 t : dom)
    {
      if (!e.begin(t))
        continue;
      civil const want = civil_from_time(t);
      bool const repr = tm_representable(want);
      vrt::nontrivial(t < 0 || t > 2147483647LL);
      vrt::maybe_sample();
      std::tm r{};
      int const how = guarded_allow<std::runtime_error>(e.name, [&] { r = fcppt::time::gmtime(static_cast<std::time_t>(t)); });
      if (how == 0)
        vrt::count("documented_exception:time::gmtime");
      if (repr)
      {
        VRT_CHECK(how != 0, e.name + ":spurious_error", "representable time %lld reported as failure", (long long)t);
        if (how == 1)
          VRT_CHECK(tm_equal(r, want), e.name + ":wrong", "t=%lld got %s want year-1900=%lld %d-%d %d:%d:%d wday %d yday %d", (long long)t,
                    show_tm(r).c_str(), (long long)as64(want.year - 1900), want.mon, want.mday, want.hour, want.min, want.sec, want.wday,
                    want.yday);
      }
      else
        VRT_CHECK(how != 1, e.name + ":no_error", "t=%lld (year does not fit std::tm) returned %s", (long long)t, show_tm(r).c_str());
    }
  }
  {
    // the time zone is an environment object of localtime: POSIX TZ strings need no tz database
    char const *const zones[] = {"UTC0", "XXX-14", "YYY12:59:59", "EST5EDT,M3.2.0,M11.1.0", ":/nonexistent/zone", ""};
    long const fixed_offset[] = {0, 14 * 3600, -(12 * 3600 + 59 * 60 + 59), 1, 1, 1}; // 1: no expectation
    entry e("time::localtime");
    for (int z = 0; z < 6; ++z)
    {
      set_tz(zones[z]);
      for (i64 t : dom)
      {
        if (!e.begin(z, t))
          continue;
        vrt::nontrivial(t < 0 || t > 2147483647LL);
        vrt::maybe_sample();
        std::tm r{};
        int const how = guarded_allow<std::runtime_error>(e.name, [&] { r = fcppt::time::localtime(static_cast<std::time_t>(t)); });
        if (how == 0)
          vrt::count("documented_exception:time::localtime");
        if (fixed_offset[z] != 1)
        {
          civil const want = civil_from_time(static_cast<i128>(t) + fixed_offset[z]);
          // glibc converts the UTC time first, so both the UTC and the shifted year have to fit
          if (tm_representable(want) && tm_representable(civil_from_time(t)))
          {
            VRT_CHECK(how != 0, e.name + ":spurious_error", "TZ=%s representable time %lld reported as failure", zones[z], (long long)t);
            if (how == 1)
              VRT_CHECK(tm_equal(r, want), e.name + ":wrong", "TZ=%s t=%lld got %s", zones[z], (long long)t, show_tm(r).c_str());
          }
          else if (!tm_representable(want) && !tm_representable(civil_from_time(t)))
            VRT_CHECK(how != 1, e.name + ":no_error", "TZ=%s t=%lld (year does not fit std::tm) returned %s", zones[z], (long long)t,
                      show_tm(r).c_str());
        }
      }
    }
    set_tz("UTC0");
  }
}

template <class Ch> std::basic_string<Ch> ascii_to(std::string const &s) { return std::basic_string<Ch>(s.begin(), s.end()); }

std::vector<std::locale> stream_locales()
{
  std::vector<std::locale> r{std::locale::classic()};
  try
  {
    r.push_back(std::locale("C.UTF-8"));
  }
  catch (std::exception const &)
  {
    vrt::count("info:locale C.UTF-8 not available");
  }
  return r;
}

void output_tm_all()
{
  // std::tm values: results of gmtime at calendar boundaries, then every field at and just outside its range
  // (C11 7.27.3.5p6: out-of-range members give unspecified characters, not undefined behaviour)
  std::vector<std::tm> tms;
  for (i64 t : {i64(0), i64(-1), i64(951782400), i64(2147483647), i64(253402300799), i64(253402300800), i64(-62135596800), i64(-62167219201),
                i64(67768036191676799), i64(-67768040609740800)})
  {
    std::tm r{};
    std::time_t const tt = static_cast<std::time_t>(t);
    if (::gmtime_r(&tt, &r) != nullptr)
      tms.push_back(r);
    else
      vrt::fail("harness:gmtime_r", "reference gmtime_r failed");
  }
  std::tm base{};
  base.tm_mday = 1;
  base.tm_year = 70;
  base.tm_wday = 4;
  int std::tm::*const fields[] = {&std::tm::tm_sec, &std::tm::tm_min,  &std::tm::tm_hour, &std::tm::tm_mday, &std::tm::tm_mon,
                                  &std::tm::tm_year, &std::tm::tm_wday, &std::tm::tm_yday, &std::tm::tm_isdst};
  int const vals[] = {-1, 0, 1, 6, 7, 11, 12, 23, 24, 31, 32, 59, 60, 61, 365, 366, 8099, 8100, 99999, std::numeric_limits<int>::max(),
                      std::numeric_limits<int>::min(), -1900, -1901};
  for (auto f : fields)
    for (int v : vals)
    {
      std::tm r = base;
      r.*f = v;
      tms.push_back(r);
    }
  auto const locs = stream_locales();
  auto run = [&](auto tag, char const *tn) {
    using Ch = decltype(tag);
    entry e(std::string("time::output_tm<") + tn + ">");
    for (std::size_t i = 0; i < tms.size(); ++i)
      for (std::size_t l = 0; l < locs.size(); ++l)
        for (int st = 0; st < 3; ++st) // good, failbit set before the call, good with exceptions(failbit|badbit)
        {
          if (!e.begin(i, l, st))
            continue;
          vrt::nontrivial(i >= 1 || st != 0);
          vrt::maybe_sample();
          guarded(e.name, [&] {
            std::basic_ostringstream<Ch> stream;
            stream.imbue(locs[l]);
            if (st == 1)
              stream.setstate(std::ios_base::failbit);
            if (st == 2)
              stream.exceptions(std::ios_base::failbit | std::ios_base::badbit);
            fcppt::time::output_tm(stream, tms[i]);
            if (st == 1)
              C01_INFO(stream.str().empty(), e.name + ":written_to_failed_stream");
            else if (i == 0)
              VRT_CHECK(stream.str() == ascii_to<Ch>("Thu Jan  1 00:00:00 1970"), e.name + ":epoch", "the epoch printed as something else (%zu characters)",
                        stream.str().size());
          });
        }
  };
  run(char{}, "char");
  run(wchar_t{}, "wchar_t");
}

// ============================================================ error / getenv / type_name / args
struct custom_category : std::error_category
{
  char const *name() const noexcept override { return "c01"; }
  std::string message(int v) const override { return "c01:" + std::to_string(v); }
};

void error_all()
{
  std::vector<int> dom;
  {
    std::set<int> s;
    for (int i = -5; i <= 200; ++i)
      s.insert(i);
    for (i32 v : lattice<i32>())
      s.insert(v);
    dom.assign(s.begin(), s.end());
  }
  {
    entry e("error::strerror");
    for (int v : dom)
    {
      if (!e.begin(v))
        continue;
      vrt::nontrivial(v <= 0 || v > 133);
      vrt::maybe_sample();
      std::string const want = std::strerror(v);
      guarded(e.name, [&] {
        fcppt::string const r = fcppt::error::strerror(v);
        if constexpr (narrow_config)
          VRT_CHECK(r == want, e.name + ":wrong", "strerror(%d) = \"%s\", std::strerror gives \"%s\"", v, r.c_str(), want.c_str());
      });
    }
  }
  {
    entry e("error::strerrno");
    for (int v : dom)
    {
      if (!e.begin(v))
        continue;
      vrt::nontrivial(v <= 0 || v > 133);
      std::string const want = std::strerror(v);
      guarded(e.name, [&] {
        errno = v;
        fcppt::string const r = fcppt::error::strerrno();
        if constexpr (narrow_config)
          VRT_CHECK(r == want, e.name + ":wrong", "errno=%d gives \"%s\", std::strerror gives \"%s\"", v, r.c_str(), want.c_str());
      });
    }
    errno = 0;
  }
  {
    static custom_category const custom;
    std::error_category const *const cats[] = {&std::generic_category(), &std::system_category(), &std::iostream_category(),
                                               &std::future_category(), &custom};
    int const vals[] = {std::numeric_limits<int>::min(), -1, 0, 1, 2, 3, 4, 5, 22, 34, 133, 134, 200, std::numeric_limits<int>::max()};
    entry e("error_code_to_string");
    for (int c = 0; c < 5; ++c)
      for (int v : vals)
      {
        if (!e.begin(c, v))
          continue;
        vrt::nontrivial(c >= 2 || v <= 0 || v > 133);
        vrt::maybe_sample();
        guarded(e.name, [&] {
          std::error_code const ec{v, *cats[c]};
          std::string const want = ec.message();
          fcppt::string const r = fcppt::error_code_to_string(ec);
          if constexpr (narrow_config)
            VRT_CHECK(r == want, e.name + ":wrong", "category %s value %d: \"%s\" instead of \"%s\"", cats[c]->name(), v, r.c_str(), want.c_str());
        });
      }
  }
}

void getenv_all()
{
  std::string const var = "VERIF_C01_A";
  std::vector<std::string> names{"", "=", "V", var, var + "=", var + "=x", var + std::string(1, '\0') + "B", std::string(1, '\0'), var + "B",
                                 "VERIF_C01_", "verif_c01_a", std::string(300, 'N')};
  std::vector<std::pair<bool, std::string>> const states{{false, ""}, {true, ""}, {true, "x"}, {true, "a=b"}, {true, std::string(5000, 'v')},
                                                         {true, "\xff\x80"}};
  entry e("getenv");
  for (std::size_t st = 0; st < states.size(); ++st)
  {
    if (states[st].first)
      ::setenv(var.c_str(), states[st].second.c_str(), 1);
    else
      ::unsetenv(var.c_str());
    for (std::size_t n = 0; n < names.size(); ++n)
    {
      if (!e.begin(st, n))
        continue;
      std::string const &name = names[n];
      bool const plain = name.find('\0') == std::string::npos;
      vrt::nontrivial(name == var || !plain || name.empty());
      vrt::maybe_sample();
      exact<char> const buf(name);
      guarded(e.name, [&] {
        fcppt::optional_std_string const r = fcppt::getenv(buf.view());
        if (plain)
        {
          char const *const want = ::getenv(name.c_str());
          VRT_CHECK(r.has_value() == (want != nullptr), e.name + (want ? ":missing" : ":spurious"), "name %s state %zu: has_value=%d", show(name).c_str(),
                    st, (int)r.has_value());
          if (want && r.has_value())
            VRT_CHECK(r.get_unsafe() == want, e.name + ":wrong_value", "name %s state %zu: wrong value", show(name).c_str(), st);
        }
      });
    }
  }
  ::unsetenv(var.c_str());
}

struct poly
{
  virtual ~poly() = default;
};
template <class, int> struct templ
{
};

void type_name_all()
{
  {
    // mangled and not-mangled names: every string over the alphabet up to length 3 (thorough 4) plus real type names
    auto strs = all_strings<char>("iPKN_1aSt", vrt::thorough() ? 4U : 3U);
    for (char const *n : {typeid(int).name(), typeid(std::string).name(), typeid(poly).name(), typeid(templ<std::vector<int>, -1>).name(),
                          typeid(void (*)(int, char const *)).name(), typeid(int poly::*).name(), "_Z1fv", "_ZN1a1bE", "St9bad_alloc",
                          "NSt7__cxx1112basic_stringIcSt11char_traitsIcESaIcEEE", "NSt7__cxx1112basic_stringIcSt11char_traitsIcESaIcEE",
                          "not a name", "\xff"})
      strs.emplace_back(n);
    entry e("type_name");
    for (auto const &s : strs)
    {
      if (!e.begin_text(show(s)))
        continue;
      int status = 0;
      char *const d = abi::__cxa_demangle(s.c_str(), nullptr, nullptr, &status);
      std::string const want = (status == 0 && d) ? std::string(d) : s;
      std::free(d);
      vrt::nontrivial(status != 0 || s.empty());
      vrt::maybe_sample();
      guarded(e.name, [&] {
        std::string const r = fcppt::type_name(s.c_str());
        VRT_CHECK(r == want, e.name + ":wrong", "got \"%s\" want \"%s\"", r.c_str(), want.c_str());
      });
    }
  }
  {
    std::type_info const *const infos[] = {&typeid(int),       &typeid(void),         &typeid(std::string),          &typeid(poly),
                                           &typeid(poly *),    &typeid(int poly::*),  &typeid(templ<poly, 7>),       &typeid(void (*)()),
                                           &typeid(en3),       &typeid(std::nullptr_t), &typeid(unsigned __int128), &typeid(decltype([] {}))};
    entry ei("type_name_from_info");
    entry ex("type_name_from_index");
    for (int i = 0; i < 12; ++i)
    {
      std::string const want = vrt::demangle(infos[i]->name());
      if (ei.begin(i))
      {
        vrt::nontrivial(i >= 2);
        guarded(ei.name, [&] {
          std::string const r = fcppt::type_name_from_info(*infos[i]);
          VRT_CHECK(r == want, ei.name + ":wrong", "got \"%s\" want \"%s\"", r.c_str(), want.c_str());
        });
      }
      if (ex.begin(i))
      {
        vrt::nontrivial(i >= 2);
        guarded(ex.name, [&] {
          std::string const r = fcppt::type_name_from_index(std::type_index(*infos[i]));
          VRT_CHECK(r == want, ex.name + ":wrong", "got \"%s\" want \"%s\"", r.c_str(), want.c_str());
        });
      }
    }
  }
}

// argv as main receives it: argc pointers to NUL-terminated strings; `terminated` adds the argv[argc] == nullptr slot that
// main guarantees, without it the block has exactly argc pointers (a read of argv[argc] is then an ASan report)
struct argv_block
{
  std::vector<std::unique_ptr<fcppt::args_char[]>> strings;
  std::unique_ptr<fcppt::args_char const *[]> ptrs;
  fcppt::args_char const *const *argv;
  argv_block(std::vector<std::string> const &a, bool terminated)
  {
    std::size_t const n = a.size() + (terminated ? 1 : 0);
    ptrs.reset(new fcppt::args_char const *[n == 0 ? 1 : n]);
    for (std::size_t i = 0; i < a.size(); ++i)
    {
      strings.emplace_back(new fcppt::args_char[a[i].size() + 1]);
      for (std::size_t k = 0; k <= a[i].size(); ++k)
        strings.back()[k] = static_cast<fcppt::args_char>(k < a[i].size() ? a[i][k] : '\0');
      ptrs[i] = strings.back().get();
    }
    if (terminated)
      ptrs[a.size()] = nullptr;
    if (n == 0)
      ptrs[0] = nullptr;
    argv = n == 0 ? ptrs.get() + 1 : ptrs.get();
  }
};

void args_all()
{
  std::vector<std::string> const tokens{"", "a", "-x", "\xff\x80"};
  std::vector<std::vector<std::string>> vecs{{}};
  {
    std::size_t from = 0;
    for (unsigned l = 1; l <= (vrt::thorough() ? 4U : 3U); ++l)
    {
      std::size_t const to = vecs.size();
      for (std::size_t i = from; i < to; ++i)
        for (auto const &t : tokens)
        {
          auto v = vecs[i];
          v.push_back(t);
          vecs.push_back(v);
        }
      from = to;
    }
  }
  entry ea("args");
  entry es("args_from_second");
  for (std::size_t i = 0; i < vecs.size(); ++i)
    for (int term = 0; term < 2; ++term)
    {
      auto const &v = vecs[i];
      std::string descr = term ? "terminated [" : "exact [";
      for (auto const &s : v)
        descr += show(s) + ",";
      descr += "]";
      auto same = [](fcppt::args_vector const &r, std::vector<std::string> const &w, std::size_t from) {
        if constexpr (std::is_same_v<fcppt::args_vector::value_type, std::string>)
        {
          if (r.size() != (w.size() >= from ? w.size() - from : 0))
            return false;
          for (std::size_t k = 0; k < r.size(); ++k)
            if (r[k] != w[k + from])
              return false;
        }
        return true;
      };
      if (ea.begin_text(descr))
      {
        vrt::nontrivial(v.size() <= 1);
        vrt::maybe_sample();
        argv_block const block(v, term != 0);
        guarded(ea.name, [&] {
          fcppt::args_vector const r = fcppt::args(static_cast<int>(v.size()), block.argv);
          VRT_CHECK(same(r, v, 0), ea.name + ":wrong", "argc=%zu: %zu elements or wrong contents", v.size(), r.size());
        });
      }
      if (es.begin_text(descr))
      {
        vrt::nontrivial(v.size() <= 1);
        vrt::maybe_sample();
        argv_block const block(v, term != 0);
        guarded(es.name, [&] {
          fcppt::args_vector const r = fcppt::args_from_second(static_cast<int>(v.size()), block.argv);
          VRT_CHECK(same(r, v, 1), es.name + ":wrong", "argc=%zu: %zu elements or wrong contents", v.size(), r.size());
        });
      }
    }
}

// ============================================================ strings
void strings_all()
{
  unsigned const maxlen = vrt::thorough() ? 4U : 3U;
  auto const bytes = all_strings<char>(std::string("a\x00\x80\xff", 4), maxlen);
  auto const locs = stream_locales();
  {
    entry ef("from_std_string_locale");
    entry et("to_std_string_locale");
    for (auto const &s : bytes)
      for (std::size_t l = 0; l < locs.size(); ++l)
      {
        bool const special = s.find_first_not_of('a') != std::string::npos;
        if (ef.begin_text(show(s) + ", locale " + std::to_string(l)))
        {
          vrt::nontrivial(special);
          vrt::maybe_sample();
          exact<char> const buf(s);
          if constexpr (narrow_config)
            guarded(ef.name, [&] {
              fcppt::string const r = fcppt::from_std_string_locale(buf.view(), locs[l]);
              VRT_CHECK(r == s, ef.name + ":wrong", "narrow-string configuration: result differs from the input");
            });
          else
            guarded_allow<std::runtime_error>(ef.name, [&] { (void)fcppt::from_std_string_locale(buf.view(), locs[l]); });
        }
        if constexpr (narrow_config)
          if (et.begin_text(show(s) + ", locale " + std::to_string(l)))
          {
            vrt::nontrivial(special);
            exact<char> const buf(s);
            guarded(et.name, [&] {
              fcppt::optional_std_string const r = fcppt::to_std_string_locale(fcppt::string_view{buf.view()}, locs[l]);
              VRT_CHECK(r.has_value() && r.get_unsafe() == s, et.name + ":wrong", "narrow-string configuration: result differs from the input");
            });
          }
      }
  }
  {
    // io::narrow_string (documented: the narrowed characters iff none of them narrows to 0); std::ctype<char>::narrow is the
    // identity
    entry e("io::narrow_string<char>");
    for (auto const &s : bytes)
      for (std::size_t l = 0; l < locs.size(); ++l)
      {
        if (!e.begin_text(show(s) + ", locale " + std::to_string(l)))
          continue;
        bool const has_nul = s.find('\0') != std::string::npos;
        vrt::nontrivial(has_nul || s.find_first_not_of('a') != std::string::npos);
        vrt::maybe_sample();
        exact<char> const buf(s);
        guarded(e.name, [&] {
          std::ostringstream ios;
          ios.imbue(locs[l]);
          fcppt::optional::object<std::string> const r = fcppt::io::narrow_string(ios, buf.view());
          VRT_CHECK(r.has_value() == !has_nul, e.name + (has_nul ? ":spurious" : ":missing"), "has_value=%d", (int)r.has_value());
          if (r.has_value() && !has_nul)
            VRT_CHECK(r.get_unsafe() == s, e.name + ":wrong", "characters changed");
        });
      }
  }
  {
    std::wstring alpha = L"a";
    alpha += static_cast<wchar_t>(0);
    alpha += static_cast<wchar_t>(0x80);
    alpha += static_cast<wchar_t>(0xff);
    alpha += static_cast<wchar_t>(0x100);
    alpha += static_cast<wchar_t>(0x20ac);
    alpha += static_cast<wchar_t>(0x10348);
    alpha += static_cast<wchar_t>(-1);
    auto const wide = all_strings<wchar_t>(alpha, maxlen);
    entry e("io::narrow_string<wchar_t>");
    for (auto const &s : wide)
      for (std::size_t l = 0; l < locs.size(); ++l)
      {
        if (!e.begin_text(show(s) + ", locale " + std::to_string(l)))
          continue;
        bool const has_nul = s.find(L'\0') != std::wstring::npos;
        bool const ascii = s.find_first_not_of(L'a') == std::wstring::npos;
        vrt::nontrivial(!ascii);
        vrt::maybe_sample();
        exact<wchar_t> const buf(s);
        guarded(e.name, [&] {
          std::wostringstream ios;
          ios.imbue(locs[l]);
          fcppt::optional::object<std::string> const r = fcppt::io::narrow_string(ios, buf.view());
          if (has_nul)
            VRT_CHECK(!r.has_value(), e.name + ":spurious", "a string containing L'\\0' was narrowed");
          else if (ascii)
            VRT_CHECK(r.has_value() && r.get_unsafe() == std::string(s.begin(), s.end()), e.name + ":ascii", "ASCII string not narrowed one to one");
          else if (r.has_value())
            VRT_CHECK(r.get_unsafe().size() == s.size() && r.get_unsafe().find('\0') == std::string::npos, e.name + ":wrong",
                      "result has %zu characters for %zu or contains NUL", r.get_unsafe().size(), s.size());
        });
      }
  }
  {
    entry ec("io::widen_string<char>");
    entry ew("io::widen_string<wchar_t>");
    for (auto const &s : bytes)
      for (std::size_t l = 0; l < locs.size(); ++l)
      {
        bool const ascii = s.find_first_not_of('a') == std::string::npos;
        if (ec.begin_text(show(s) + ", locale " + std::to_string(l)))
        {
          vrt::nontrivial(!ascii);
          vrt::maybe_sample();
          guarded(ec.name, [&] {
            std::ostringstream stream;
            stream.imbue(locs[l]);
            stream << fcppt::io::widen_string(s);
            VRT_CHECK(stream.str() == s, ec.name + ":wrong", "char stream: output differs from the string");
          });
        }
        if (ew.begin_text(show(s) + ", locale " + std::to_string(l)))
        {
          vrt::nontrivial(!ascii);
          guarded(ew.name, [&] {
            std::wostringstream stream;
            stream.imbue(locs[l]);
            stream << fcppt::io::widen_string(s);
            // a byte that widens to WEOF is swallowed by std::wstringbuf::overflow: the standard library's business, recorded only
            C01_INFO(stream.str().size() == s.size() || !stream, ew.name + ":length");
            if (ascii)
              VRT_CHECK(stream.str() == std::wstring(s.begin(), s.end()), ew.name + ":ascii", "ASCII string not widened one to one");
          });
        }
      }
  }
  {
    entry e("FCPPT_CHAR_LITERAL/FCPPT_STRING_LITERAL");
    if (e.begin(0))
    {
      vrt::nontrivial(true);
      guarded(e.name, [&] {
        VRT_CHECK(FCPPT_CHAR_LITERAL(char, 'x') == 'x' && FCPPT_CHAR_LITERAL(wchar_t, 'x') == L'x', e.name + ":char", "wrong character");
        VRT_CHECK(std::string(FCPPT_STRING_LITERAL(char, "ab")) == "ab" && std::wstring(FCPPT_STRING_LITERAL(wchar_t, "ab")) == L"ab" &&
                      std::string(FCPPT_STRING_LITERAL(char, "")).empty() && std::wstring(FCPPT_STRING_LITERAL(wchar_t, "")).empty(),
                  e.name + ":string", "wrong string");
      });
    }
  }
}

// ============================================================ options::indent, error / position output of options and parse
void error_output_all()
{
  unsigned const maxlen = vrt::thorough() ? 6U : 4U;
  {
    entry ei("options::indent");
    entry eo("options::error_output");
    for (auto const &s : all_strings<char>(std::string("a \n", 3), maxlen))
    {
      if (ei.begin_text(show(s)))
      {
        vrt::nontrivial(s.empty() || s.find('\n') != std::string::npos);
        vrt::maybe_sample();
        if constexpr (narrow_config)
          guarded(ei.name, [&] {
            fcppt::string const r = fcppt::options::indent(fcppt::string{s});
            // "indents every line once": what a line is at an empty string / a trailing newline is not documented
            std::string want = "  ";
            for (char c : s)
              want += c == '\n' ? std::string("\n  ") : std::string(1, c);
            C01_INFO(r == want, ei.name + ":differs_from_prefix_every_line");
            VRT_CHECK(r.size() >= s.size(), ei.name + ":shorter", "%zu characters from %zu", r.size(), s.size());
          });
      }
      if (eo.begin_text(show(s)))
      {
        vrt::nontrivial(!s.empty());
        if constexpr (narrow_config)
          guarded(eo.name, [&] {
            std::ostringstream stream;
            stream << fcppt::options::error{fcppt::string{s}};
            VRT_CHECK(stream.str() == s, eo.name + ":wrong", "the error text is not written verbatim");
          });
      }
    }
  }
  {
    auto run = [&](auto tag, char const *tn) {
      using Ch = decltype(tag);
      std::basic_string<Ch> alpha;
      alpha += static_cast<Ch>('a');
      alpha += static_cast<Ch>('\n');
      alpha += static_cast<Ch>(0);
      alpha += static_cast<Ch>(0xff);
      entry e(std::string("parse::error_output<") + tn + ">");
      for (auto const &s : all_strings<Ch>(alpha, vrt::thorough() ? 4U : 3U))
        for (int fatal = 0; fatal < 2; ++fatal)
        {
          if (!e.begin_text(show(s) + (fatal ? ", fatal" : "")))
            continue;
          vrt::nontrivial(!s.empty());
          vrt::maybe_sample();
          guarded(e.name, [&] {
            std::basic_ostringstream<Ch> stream;
            if (fatal)
              stream << fcppt::parse::error<Ch>{std::basic_string<Ch>{s}, fcppt::parse::fatal_tag{}};
            else
              stream << fcppt::parse::error<Ch>{std::basic_string<Ch>{s}};
            VRT_CHECK(stream.str() == s, e.name + ":wrong", "the error text is not written verbatim");
          });
        }
      entry ep(std::string("parse::position_output<") + tn + ">");
      long long const offs[] = {-1, 0, 1, 2147483647LL, 2147483648LL, 9223372036854775807LL};
      std::uint64_t const lc[] = {0, 1, 4294967296ULL, 18446744073709551615ULL};
      for (int o = 0; o < 6; ++o)
        for (int l = -1; l < 4; ++l)
          for (int c = 0; c < 4; ++c)
          {
            if (l == -1 && c != 0)
              continue;
            if (!ep.begin(o, l, c))
              continue;
            vrt::nontrivial(l == -1 || o != 1);
            guarded(ep.name, [&] {
              using position = fcppt::parse::position<Ch>;
              typename position::optional_location const loc =
                  l == -1 ? typename position::optional_location{}
                          : typename position::optional_location{fcppt::parse::location{fcppt::parse::line{lc[l]}, fcppt::parse::column{lc[c]}}};
              std::basic_ostringstream<Ch> stream;
              stream << position{typename position::pos_type{static_cast<std::streamoff>(offs[o])}, loc};
              VRT_CHECK(stream.good() && !stream.str().empty(), ep.name + ":nothing_written", "stream state %d", (int)stream.rdstate());
            });
          }
    };
    run(char{}, "char");
    run(wchar_t{}, "wchar_t");
  }
}

// ============================================================ enum helpers
static_assert(fcppt::enum_::max_value<en3>::value == en3::c && fcppt::enum_::min_value<en3>::value == en3::a);
static_assert(fcppt::enum_::max_value<en1>::value == en1::only && fcppt::enum_::min_value<en1>::value == en1::only);
static_assert(fcppt::enum_::max_value<en_s16>::value == en_s16::one && fcppt::enum_::min_value<en_s16>::value == en_s16::zero);
static_assert(std::is_same_v<fcppt::enum_::names_array<en3>, fcppt::enum_::array<en3, std::string_view>>);

void enum_all()
{
  {
    entry e("enum_::max_value/min_value");
    if (e.begin(0))
    {
      vrt::nontrivial(true);
      guarded(e.name, [&] {
        en3 const mx = fcppt::enum_::max_value<en3>();
        en3 const mn = fcppt::enum_::min_value<en3>();
        VRT_CHECK(mx == en3::c && mn == en3::a, e.name + ":wrong", "wrong enumerator");
      });
    }
  }
  using arr = fcppt::enum_::array<en3, int>;
  entry ei("enum_::index_of_array<en3,int>");
  entry eo("enum_::array_output<en3,int,char>");
  entry ew("enum_::array_output<en3,int,wchar_t>");
  for (int a = 0; a < 3; ++a)
    for (int b = 0; b < 3; ++b)
      for (int c = 0; c < 3; ++c)
      {
        arr const array{a, b, c};
        for (int v = -1; v < 4; ++v)
        {
          if (!ei.begin(a, b, c, v))
            continue;
          int const want = a == v ? 0 : (b == v ? 1 : (c == v ? 2 : -1));
          vrt::nontrivial(want != 0);
          vrt::maybe_sample();
          guarded(ei.name, [&] {
            fcppt::optional::object<en3> const r = fcppt::enum_::index_of_array(array, v);
            VRT_CHECK(r.has_value() == (want >= 0), ei.name + (want >= 0 ? ":missing" : ":spurious"), "[%d,%d,%d] value %d: has_value=%d", a, b, c, v,
                      (int)r.has_value());
            if (r.has_value() && want >= 0)
              VRT_CHECK(static_cast<int>(r.get_unsafe()) == want, ei.name + ":wrong", "[%d,%d,%d] value %d: index %d want %d", a, b, c, v,
                        static_cast<int>(r.get_unsafe()), want);
          });
        }
        std::string const text = vrt::fmt("[a=%d,b=%d,c=%d]", a, b, c);
        for (int st = 0; st < 2; ++st)
        {
          if (eo.begin(a, b, c, st))
          {
            vrt::nontrivial(st != 0);
            guarded(eo.name, [&] {
              std::ostringstream stream;
              if (st)
                stream.setstate(std::ios_base::failbit);
              stream << array;
              if (st == 0)
                C01_INFO(stream.str() == text, eo.name + ":format");
            });
          }
          if (ew.begin(a, b, c, st))
          {
            vrt::nontrivial(st != 0);
            guarded(ew.name, [&] {
              std::wostringstream stream;
              if (st)
                stream.setstate(std::ios_base::failbit);
              stream << array;
              if (st == 0)
                C01_INFO(stream.str() == std::wstring(text.begin(), text.end()), ew.name + ":format");
            });
          }
        }
      }
}

}

void c01::register_more()
{
  vrt::shard("more_time", [] {
    time_all();
    output_tm_all();
  });
  vrt::shard("more_error_env", [] {
    error_all();
    getenv_all();
    type_name_all();
    args_all();
  });
  vrt::shard("more_strings", [] {
    strings_all();
    enum_all();
    error_output_all();
  });
}

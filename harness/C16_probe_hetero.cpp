// C16 compile probes for the heterogeneous-type uses of C16_hetero.cpp: one family per C16_PROBE_KIND, every
// element/value type pair of that family.  If a library change makes one of these uses ill-formed, the probe is the
// verdict (compile:hetero_<family>) instead of a harness build error.
#include "C16_hetero.hpp"

using namespace c16h;

#define C16_FOR_CONTAINERS(E, V, BODY) \
  { std::vector<E> c; V v{}; BODY } { std::deque<E> c; V v{}; BODY } { std::list<E> c; V v{}; BODY }

void c16_probe_hetero()
{
#if C16_PROBE_KIND == 1
#define X(E, V) C16_FOR_CONTAINERS(E, V, (void)call_equal_range(c, v); (void)call_binary_search(c, v);)
  C16H_PAIRS(X)
#elif C16_PROBE_KIND == 2
#define X(E, V) C16_FOR_CONTAINERS(E, V, (void)call_contains(c, v); (void)call_find_opt(c, v); (void)call_find_by_opt(c, v);)
  C16H_PAIRS(X)
#elif C16_PROBE_KIND == 3
#define X(E, V) { std::vector<E> c; V v{}; (void)call_index_of(c, v); } { std::deque<E> c; V v{}; (void)call_index_of(c, v); }
  C16H_PAIRS(X)
#elif C16_PROBE_KIND == 4
#define X(E, V) C16_FOR_CONTAINERS(E, V, (void)call_remove(c, v);)
  C16H_PAIRS(X)
#elif C16_PROBE_KIND == 5
#define X(E, V) C16_FOR_CONTAINERS(E, V, std::size_t n = 0; (void)call_fold(c, v); (void)call_fold_break(c, v, 1, n);)
  C16H_PAIRS(X)
#elif C16_PROBE_KIND == 6
  std::vector<int> const c;
  (void)call_at_optional(c, static_cast<signed char>(0));
  (void)call_at_optional(c, uchar{0});
  (void)call_at_optional(c, short{0});
  (void)call_at_optional(c, static_cast<unsigned short>(0));
  (void)call_at_optional(c, 0);
  (void)call_at_optional(c, 0U);
  (void)call_at_optional(c, llong{0});
#elif C16_PROBE_KIND == 7
#define X(M, K) { M m; K k{}; (void)call_find_opt_iterator(m, k); (void)call_map_find_opt(m, k); (void)call_find_opt_mapped(m, k); }
  using plain_map = std::map<int, int>;
  X(tmap_int, short) X(tmap_int, uchar) X(tmap_int, llong) X(tmap_int, double) X(plain_map, short) X(plain_map, llong) X(plain_map, double)
  X(tmap_str, std::string_view) X(tmap_str, char const *) X(map_str, char const *)
#elif C16_PROBE_KIND == 8
  auto const ci = [](int const k) { return k; };
  auto const cs = [](std::string const &k) { return static_cast<int>(k.size()); };
#define X(M, K, F) { M m; K k{}; (void)call_get_or_insert(m, k, F); (void)call_get_or_insert_with_result(m, k, F); }
  using plain_map = std::map<int, int>;
  X(tmap_int, short, ci) X(tmap_int, uchar, ci) X(tmap_int, llong, ci) X(tmap_int, double, ci) X(plain_map, short, ci) X(plain_map, llong, ci)
  X(plain_map, double, ci)
  { tmap_str m; char const *k = ""; (void)call_get_or_insert(m, k, cs); (void)call_get_or_insert_with_result(m, k, cs); }
  { map_str m; char const *k = ""; (void)call_get_or_insert(m, k, cs); (void)call_get_or_insert_with_result(m, k, cs); }
#elif C16_PROBE_KIND == 9
  std::vector<std::string> const v;
  std::list<std::string> const l;
  char const *const d = ", ";
  (void)call_join_strings(v, d);
  (void)call_join_strings(l, "--");
  std::string const s;
  std::wstring const w;
  std::vector<int> const vi;
  (void)call_split_string(s, int{'#'});
  (void)call_split_string(s, uchar{'a'});
  (void)call_split_string(s, llong{'b'});
  (void)call_split_string(w, '#');
  (void)call_split_string(w, int{'a'});
  (void)call_split_string(vi, short{0});
  (void)call_split_string(vi, llong{0});
  (void)call_split_string(vi, uchar{0});
#else
#error "C16_PROBE_KIND must be 1..9"
#endif
}

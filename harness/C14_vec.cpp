// C14_vec.cpp -- fcppt::math::vector: component-wise arithmetic, comparison, access,
// casts (shared groups of C14_vecdim.hpp) plus dot, cross, length_square, vector (op) dim,
// matrix row views as operands, bit_strings and the module laws over triples.
// Domains: N=1,2 over [-9,9] (quick pairs: [-3,3]); N=3 over [-2,2] (thorough: unary [-9,9], pairs [-4,4]);
// N=4 over [-2,2] (quick pairs: [-1,1]); triples over [-3,3], [-2,2], [-1,1], [-1,1] (quick N=4: {0,1}).
#include "C14_vecdim.hpp"

#include <fcppt/array/object_impl.hpp>
#include <fcppt/math/matrix/at_r.hpp>
#include <fcppt/math/matrix/determinant.hpp>
#include <fcppt/math/vector/bit_strings.hpp>
#include <fcppt/math/vector/cross.hpp>
#include <fcppt/math/vector/dim.hpp>
#include <fcppt/math/vector/dot.hpp>
#include <fcppt/math/vector/length_square.hpp>

namespace c14
{
namespace
{
namespace fm = fcppt::math::matrix;

template <sz N> void vector_unary_extra(std::vector<rvec<N>> const &fam)
{
  static std::string const fn = "length_square<" + std::to_string(N) + ">";
  for (auto const &u : fam)
  {
    if (!vrt::begin_text(fn.c_str(), fn + " u=" + show(u)))
      continue;
    vrt::nontrivial(!rvzero(u));
    vrt::maybe_sample();
    svec<N> const s = mk_sv<svec<N>>(u);
    buf<N> const b(u);
    long const want = rvdot(u, u);
    C14_EQ(static_cast<long>(fv::length_square(s)), want, fn + ":wrong", "length_square(u)");
    C14_EQ(static_cast<long>(fv::length_square(b.vec())), want, fn + ":wrong:view", "length_square(u) (view storage)");
    C14_EQ(static_cast<long>(fv::dot(s, s)), want, fn + ":dot", "dot(u,u)");
  }
}

// dot, cross, vector (op) dim, row views
template <sz N> void vector_pair_extra(vop<vec_k, N> const &U, vop<vec_k, N> const &V, std::string const &text)
{
  rvec<N> const &u = U.r, &w = V.r;
  svec<N> const &su = U.s, &sw = V.s;
  vvec<N> const vu = U.v(), vw = V.v();
  static std::string const nn = "<" + std::to_string(N) + ">";
  {
    static std::string const fn = "dot" + nn;
    if (vrt::begin_text(fn.c_str(), fn + " " + text))
    {
      long const want = rvdot(u, w);
      vrt::nontrivial(want != 0);
      vrt::maybe_sample();
      C14_EQ(static_cast<long>(fv::dot(su, sw)), want, fn + ":wrong:static_static", "dot(u,v)");
      C14_EQ(static_cast<long>(fv::dot(su, vw)), want, fn + ":wrong:static_view", "dot(u,v)");
      C14_EQ(static_cast<long>(fv::dot(vu, sw)), want, fn + ":wrong:view_static", "dot(u,v)");
      C14_EQ(static_cast<long>(fv::dot(vu, vw)), want, fn + ":wrong:view_view", "dot(u,v)");
      C14_TRUE(fv::dot(su, sw) == fv::dot(sw, su), fn + ":law:symmetric", "dot(u,v) != dot(v,u)");
      // |u+v|^2 = |u|^2 + 2 u.v + |v|^2
      C14_TRUE(fv::length_square(su + sw) == fv::length_square(su) + 2 * fv::dot(su, sw) + fv::length_square(sw), fn + ":law:binomial",
               "length_square(u+v) != length_square(u)+2dot(u,v)+length_square(v)");
    }
  }
  if constexpr (N == 3)
  {
    static std::string const fn = "cross";
    if (vrt::begin_text(fn.c_str(), fn + " " + text))
    {
      rvec<3> const want = rvcross(u, w);
      vrt::nontrivial(!rvzero(want));
      vrt::maybe_sample();
      auto const c = fv::cross(su, sw);
      C14_EQ(rdv(c), want, fn + ":wrong:static_static", "cross(u,v)");
      C14_EQ(rdv(fv::cross(su, vw)), want, fn + ":wrong:static_view", "cross(u,v)");
      C14_EQ(rdv(fv::cross(vu, sw)), want, fn + ":wrong:view_static", "cross(u,v)");
      C14_EQ(rdv(fv::cross(vu, vw)), want, fn + ":wrong:view_view", "cross(u,v)");
      C14_TRUE(c == -fv::cross(sw, su), fn + ":law:anticommutative", "cross(u,v) != -cross(v,u)");
      C14_TRUE(fv::dot(su, c) == 0 && fv::dot(sw, c) == 0, fn + ":law:orthogonal", "cross(u,v) is not orthogonal to u and v");
      // Lagrange: |u x v|^2 = |u|^2 |v|^2 - (u.v)^2
      C14_TRUE(fv::length_square(c) == fv::length_square(su) * fv::length_square(sw) - fv::dot(su, sw) * fv::dot(su, sw), fn + ":law:lagrange",
               "Lagrange identity violated");
    }
  }
  {
    static std::string const fn = "vector_dim" + nn;
    if (vrt::begin_text(fn.c_str(), fn + " " + text))
    {
      vrt::nontrivial(!rvzero(u) && !rvzero(w) && !(u == w));
      sdim<N> const d = mk_sv<sdim<N>>(w);
      vdim<N> const vd = V.b.dim();
      C14_EQ(rdv(su + d), rvadd(u, w), fn + ":add", "vector+dim");
      C14_EQ(rdv(vu + vd), rvadd(u, w), fn + ":add:view", "vector+dim (view storages)");
      C14_EQ(rdv(su - d), rvsub(u, w), fn + ":sub", "vector-dim");
      C14_EQ(rdv(vu - vd), rvsub(u, w), fn + ":sub:view", "vector-dim (view storages)");
      C14_EQ(rdv(su * d), rvmul(u, w), fn + ":mul", "vector*dim");
      C14_EQ(rdv(vu * vd), rvmul(u, w), fn + ":mul:view", "vector*dim (view storages)");
      check_quotient(su / d, u, w, fn + ":div");
      check_quotient(vu / vd, u, w, fn + ":div:view");
    }
  }
  {
    // u and v as the two rows of a 2xN matrix: row views as vector operands
    static std::string const fn = "row_view_operands" + nn;
    if (vrt::begin_text(fn.c_str(), fn + " " + text))
    {
      vrt::nontrivial(!rvzero(u) && !rvzero(w) && !(u == w));
      smat<2, N> m{fcppt::no_init{}};
      for (sz i = 0; i < N; ++i)
      {
        m.storage()[i] = static_cast<I>(u[i]);
        m.storage()[N + i] = static_cast<I>(w[i]);
      }
      smat<2, N> const &cm = m;
      auto const r0 = fm::at_r<0>(cm);
      auto const r1 = fm::at_r<1>(cm);
      C14_EQ(rdv(r0 + r1), rvadd(u, w), fn + ":add", "row0+row1");
      C14_EQ(rdv(r0 - r1), rvsub(u, w), fn + ":sub", "row0-row1");
      C14_EQ(rdv(r0 * r1), rvmul(u, w), fn + ":mul", "row0*row1");
      C14_EQ(rdv(r0 + sw), rvadd(u, w), fn + ":add:row_static", "row0+v");
      C14_EQ(rdv(vu - r1), rvsub(u, w), fn + ":sub:view_row", "u-row1");
      C14_EQ(rdv(3 * r1), rvscal(3, w), fn + ":scalar", "3*row1");
      C14_EQ(rdv(-r0), rvscal(-1, u), fn + ":negate", "-row0");
      C14_EQ(static_cast<long>(fv::dot(r0, r1)), rvdot(u, w), fn + ":dot", "dot(row0,row1)");
      C14_TRUE((r0 == r1) == (u == w) && (r0 != r1) == !(u == w), fn + ":eq", "row0==row1 wrong");
      C14_TRUE((r0 < r1) == (u < w) && (r0 >= r1) == !(u < w), fn + ":lt", "row0<row1 wrong");
      C14_TRUE(r0 == su && sw == r1, fn + ":eq:row_static", "row view != the vector it was built from");
      if constexpr (N == 3)
        C14_EQ(rdv(fv::cross(r0, r1)), rvcross(u, w), fn + ":cross", "cross(row0,row1)");
      // writing through a mutable row view: row1 += row0 changes exactly row 1
      auto w1 = fm::at_r<1>(m);
      w1 += r0;
      rvec<2 * N> want;
      for (sz i = 0; i < N; ++i)
      {
        want[i] = u[i];
        want[N + i] = u[i] + w[i];
      }
      rvec<2 * N> got;
      for (sz i = 0; i < 2 * N; ++i)
        got[i] = m.storage()[i];
      C14_EQ(got, want, fn + ":add_assign", "row1 += row0");
    }
  }
}

template <sz N> struct vtriple_ctx
{
  rvec<N> const *a, *b, *c;
  static std::string print(void const *p)
  {
    auto const *t = static_cast<vtriple_ctx const *>(p);
    return "vector_module_laws<" + std::to_string(N) + "> u=" + show(*t->a) + " v=" + show(*t->b) + " w=" + show(*t->c);
  }
};
template <sz N> void vector_triples(std::vector<rvec<N>> const &fam, unsigned part, unsigned nparts)
{
  static std::string const fn = "vector_module_laws<" + std::to_string(N) + ">";
  auto const ops = make_vops<vec_k, N>(fam);
  vtriple_ctx<N> ctx{};
  for (std::size_t i = 0; i < ops.size(); ++i)
  {
    if (i % nparts != part)
      continue;
    if (vrt::out_of_time())
      return;
    for (std::size_t j = 0; j < ops.size(); ++j)
      for (std::size_t k = 0; k < ops.size(); ++k)
      {
        if (!vrt::begin(fn.c_str(), i, j, k))
          continue;
        rvec<N> const &u = ops[i].r, &v = ops[j].r, &w = ops[k].r;
        ctx.a = &u;
        ctx.b = &v;
        ctx.c = &w;
        g_ctx.print = &vtriple_ctx<N>::print;
        g_ctx.data = &ctx;
        vrt::nontrivial(!rvzero(u) && !rvzero(v) && !rvzero(w) && i != j && j != k && i != k);
        sample_lazy();
        svec<N> const &su = ops[i].s, &sw = ops[k].s;
        vvec<N> const sv = ops[j].v(); // the middle operand uses view storage
        C14_TRUE((su + sv) + sw == su + (sv + sw), fn + ":add_associative", "(u+v)+w != u+(v+w)");
        C14_EQ(rdv((su + sv) + sw), rvadd(rvadd(u, v), w), fn + ":add_associative:reference", "(u+v)+w");
        C14_TRUE((su * sv) * sw == su * (sv * sw), fn + ":mul_associative", "(u*v)*w != u*(v*w)");
        C14_TRUE(su * (sv + sw) == su * sv + su * sw, fn + ":distributive", "u*(v+w) != u*v+u*w");
        C14_EQ(rdv(su * (sv + sw)), rvmul(u, rvadd(v, w)), fn + ":distributive:reference", "u*(v+w)");
        C14_TRUE(3 * (su + sv) == 3 * su + 3 * sv && (su - sv) * -2 == su * -2 - sv * -2, fn + ":scalar_distributive", "k(u+-v) != ku+-kv");
        C14_TRUE(fv::dot(su + sv, sw) == fv::dot(su, sw) + fv::dot(sv, sw), fn + ":dot_additive", "dot(u+v,w) != dot(u,w)+dot(v,w)");
        C14_TRUE(fv::dot(2 * su, sw) == 2 * fv::dot(su, sw), fn + ":dot_homogeneous", "dot(2u,w) != 2dot(u,w)");
        if constexpr (N == 3)
        {
          C14_TRUE(fv::cross(su, sv + sw) == fv::cross(su, sv) + fv::cross(su, sw), fn + ":cross_additive", "u x (v+w) != u x v + u x w");
          // scalar triple product = determinant of the matrix with rows u, v, w
          smat<3, 3> m{fcppt::no_init{}};
          for (sz c = 0; c < 3; ++c)
          {
            m.storage()[c] = static_cast<I>(u[c]);
            m.storage()[3 + c] = static_cast<I>(v[c]);
            m.storage()[6 + c] = static_cast<I>(w[c]);
          }
          long const stp = fv::dot(su, fv::cross(sv, sw));
          C14_EQ(stp, static_cast<long>(fm::determinant(m)), fn + ":triple_product_determinant", "dot(u, cross(v,w)) vs determinant(rows u,v,w)");
          C14_EQ(stp, rvdot(u, rvcross(v, w)), fn + ":triple_product:reference", "dot(u, cross(v,w))");
          // Grassmann: u x (v x w) = v (u.w) - w (u.v); Jacobi
          C14_TRUE(fv::cross(su, fv::cross(sv, sw)) == sv * fv::dot(su, sw) - sw * fv::dot(su, sv), fn + ":grassmann", "u x (v x w) != v(u.w) - w(u.v)");
          C14_EQ(rdv(fv::cross(su, fv::cross(sv, sw)) + fv::cross(sv, fv::cross(sw, su)) + fv::cross(sw, fv::cross(su, sv))), rvec<3>{}, fn + ":jacobi",
                 "Jacobi identity");
        }
      }
  }
  g_ctx = case_ctx{};
}

template <class T, sz N> void bit_strings_case(char const *tn)
{
  std::string const fn = std::string("bit_strings<") + tn + "," + std::to_string(N) + ">";
  if (!vrt::begin_text(fn.c_str(), fn))
    return;
  vrt::nontrivial(N > 1);
  vrt::maybe_sample();
  auto const r = fv::bit_strings<T, N>();
  // documented order: entry k has component i equal to bit i of k
  std::size_t const count = std::size_t{1} << N;
  for (std::size_t k = 0; k < count; ++k)
  {
    rvec<N> want;
    for (sz i = 0; i < N; ++i)
      want[i] = static_cast<long>((k >> i) & 1U);
    C14_EQ(rdv(r.get_unsafe(k)), want, fn + ":wrong", "bit_strings entry");
  }
}

template <sz N> void register_vector_dim(std::vector<rvec<N>> (*unary_dom)(), std::vector<rvec<N>> (*pair_dom)(), std::vector<rvec<N>> (*triple_dom)(),
                                         unsigned pair_parts, unsigned triple_parts)
{
  std::string const n = std::to_string(N);
  vrt::shard("vector" + n + "/unary", [unary_dom] {
    unary_all<vec_k, N>(unary_dom(), vrt::thorough() ? range(-9, 9) : range(-3, 3));
    vector_unary_extra<N>(unary_dom());
  });
  for (unsigned p = 0; p < pair_parts; ++p)
    vrt::shard("vector" + n + "/pairs/" + std::to_string(p), [pair_dom, p, pair_parts] {
      pairs_all<vec_k, N>(pair_dom(), p, pair_parts,
                          [](vop<vec_k, N> const &U, vop<vec_k, N> const &V, std::string const &text) { vector_pair_extra<N>(U, V, text); });
    });
  for (unsigned p = 0; p < triple_parts; ++p)
    vrt::shard("vector" + n + "/triples/" + std::to_string(p), [triple_dom, p, triple_parts] { vector_triples<N>(triple_dom(), p, triple_parts); });
}
}

void register_vec()
{
  register_vector_dim<1>([] { return all_vectors<1>(-9, 9); }, [] { return all_vectors<1>(-9, 9); }, [] { return all_vectors<1>(-3, 3); }, 1, 1);
  register_vector_dim<2>([] { return all_vectors<2>(-9, 9); }, [] { return vrt::thorough() ? all_vectors<2>(-9, 9) : all_vectors<2>(-3, 3); },
                         [] { return all_vectors<2>(-2, 2); }, 4, 1);
  register_vector_dim<3>([] { return vrt::thorough() ? all_vectors<3>(-9, 9) : all_vectors<3>(-2, 2); },
                         [] { return vrt::thorough() ? all_vectors<3>(-4, 4) : all_vectors<3>(-2, 2); }, [] { return all_vectors<3>(-1, 1); }, 8, 2);
  register_vector_dim<4>([] { return all_vectors<4>(-2, 2); }, [] { return vrt::thorough() ? all_vectors<4>(-2, 2) : all_vectors<4>(-1, 1); },
                         [] { return vrt::thorough() ? all_vectors<4>(-1, 1) : all_vectors<4>(0, 1); }, 8, 8);
  vrt::shard("vector/bit_strings", [] {
    bit_strings_case<int, 1>("int");
    bit_strings_case<int, 2>("int");
    bit_strings_case<int, 3>("int");
    bit_strings_case<int, 4>("int");
    bit_strings_case<unsigned, 1>("unsigned");
    bit_strings_case<unsigned, 3>("unsigned");
    bit_strings_case<long, 4>("long");
  });
}
}

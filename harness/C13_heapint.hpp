// C13: a user-defined coordinate type with OBSERVABLE move semantics.
// heap_int is a signed integer that lives in a heap cell (like an arbitrary-precision integer): copying is
// deep, moving steals the cell.  A moved-from heap_int has no cell; reading it yields a poison value far
// outside every domain and is counted, so a library path that reads a coordinate after moving from it is
// noticed directly (read_of_moved_from_scalar) and through the wrong result.
#ifndef VERIF_C13_HEAPINT_HPP
#define VERIF_C13_HEAPINT_HPP

#include <fcppt/make_literal_fwd.hpp>

#include <memory>
#include <utility>

namespace c13
{
class heap_int
{
public:
  static constexpr long poison = 7777777;
  static inline unsigned long moved_reads = 0;
  static inline long live_cells = 0; // heap cells currently alive (leak check)
  struct cell
  {
    long v;
    explicit cell(long const _v) : v(_v) { ++live_cells; }
    cell(cell const &) = delete;
    cell &operator=(cell const &) = delete;
    ~cell() { --live_cells; }
  };

  heap_int() : cell_(std::make_unique<cell>(0)) {}
  // NOLINTNEXTLINE(google-explicit-constructor)
  heap_int(long long const v) : cell_(std::make_unique<cell>(static_cast<long>(v))) {}
  heap_int(heap_int const &o) : cell_(o.cell_ ? std::make_unique<cell>(o.cell_->v) : nullptr) {}
  heap_int(heap_int &&) noexcept = default;
  heap_int &operator=(heap_int const &o)
  {
    if (this != &o)
      cell_ = o.cell_ ? std::make_unique<cell>(o.cell_->v) : nullptr;
    return *this;
  }
  heap_int &operator=(heap_int &&) noexcept = default;
  ~heap_int() = default;

  [[nodiscard]] long get() const
  {
    if (!cell_)
    {
      ++moved_reads;
      return poison;
    }
    return cell_->v;
  }
  explicit operator long long() const { return get(); }

  heap_int &operator+=(heap_int const &o) { return *this = heap_int(get() + o.get()); }
  heap_int &operator-=(heap_int const &o) { return *this = heap_int(get() - o.get()); }
  heap_int &operator*=(heap_int const &o) { return *this = heap_int(get() * o.get()); }

private:
  std::unique_ptr<cell> cell_;
};

inline heap_int operator+(heap_int const &a, heap_int const &b) { return heap_int(a.get() + b.get()); }
inline heap_int operator-(heap_int const &a, heap_int const &b) { return heap_int(a.get() - b.get()); }
inline heap_int operator*(heap_int const &a, heap_int const &b) { return heap_int(a.get() * b.get()); }
inline heap_int operator/(heap_int const &a, heap_int const &b) { return heap_int(a.get() / b.get()); }
inline heap_int operator-(heap_int const &a) { return heap_int(-a.get()); }
inline bool operator==(heap_int const &a, heap_int const &b) { return a.get() == b.get(); }
inline bool operator!=(heap_int const &a, heap_int const &b) { return a.get() != b.get(); }
inline bool operator<(heap_int const &a, heap_int const &b) { return a.get() < b.get(); }
inline bool operator<=(heap_int const &a, heap_int const &b) { return a.get() <= b.get(); }
inline bool operator>(heap_int const &a, heap_int const &b) { return a.get() > b.get(); }
inline bool operator>=(heap_int const &a, heap_int const &b) { return a.get() >= b.get(); }
}

// documented customisation point: how to make a literal of the user-defined scalar
template <> struct fcppt::make_literal<c13::heap_int, void>
{
  using decorated_type = c13::heap_int;
  template <typename Arg> static decorated_type get(Arg const _value) noexcept
  {
    return c13::heap_int{static_cast<long long>(_value)};
  }
};

#endif

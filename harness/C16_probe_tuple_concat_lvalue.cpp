// C16 compile probe: tuple::concat must accept lvalue tuples (it uses move_if_rvalue on every argument).
#include <fcppt/tuple/concat.hpp>
#include <fcppt/tuple/object_impl.hpp>

fcppt::tuple::object<int, long, char> c16_probe_concat(fcppt::tuple::object<int, long> const &a, fcppt::tuple::object<char> &b)
{
  return fcppt::tuple::concat(a, b);
}

// C14_narrow.cpp -- narrow scalar types, the same type on both sides (see C14_narrow.hpp)
#include "C14_narrow.hpp"

namespace c14
{
using namespace narrow;

void register_narrow()
{
  // same narrow type on both sides
  vrt::shard("narrow/i8/componentwise", [] {
    type_pair_small<i8, i8>();
    componentwise<0, i8, i8, 3>(vals<i8>(), vals<i8>());
    matrix_products<i8, i8, 1, 3, 1>(vals<i8>(), vals<i8>());
  });
  vrt::shard("narrow/u8_i16/componentwise", [] {
    type_pair_small<u8, u8>();
    type_pair_small<i16, i16>();
  });
  vrt::shard("narrow/i8/matrix_vector", [] {
    matrix_vector<i8, i8, 2, 2>(vals<i8>(), vals<i8>());
    matrix_vector<i8, i8, 1, 3>(vals<i8>(), vals<i8>());
    matrix_vector<i8, i8, 3, 1>(vals<i8>(), vals<i8>());
  });
  vrt::shard("narrow/u8_i16/matrix_vector", [] {
    matrix_vector<u8, u8, 2, 2>(vals<u8>(), vals<u8>());
    matrix_vector<i16, i16, 2, 2>(vals<i16>(true), vals<i16>());
    matrix_vector<u8, u8, 1, 3>(vals<u8>(), vals<u8>());
  });
  for (unsigned p = 0; p < 3; ++p)
    vrt::shard("narrow/i8/3x3/" + std::to_string(p), [p] {
      // 3x3 over {-128,0,127} (thorough) / {-128,127} (quick) times every vector over the same set; one shard per first entry
      std::vector<long> const all = vrt::thorough() ? std::vector<long>{-128, 0, 127} : std::vector<long>{-128, 127};
      if (p >= all.size())
        return;
      static std::string const fn = tag<i8, i8>("matrix_vector", "3x3");
      static std::string const sg = sigbase<i8, i8>("matrix_vector");
      using LM = fm::static_<i8, 3, 3>;
      using RV = fv::static_<i8, 3>;
      for (auto const &a : all_over<3, 3>(all))
      {
        if (a.d[0] != all[p])
          continue;
        if (vrt::out_of_time())
          return;
        LM const sa = mk_anym<LM>(a);
        tbuf<i8, 9> const ba(a.d);
        for (auto const &x : vecs_over<i8, 3>(all))
        {
          if (!vrt::begin_text(fn.c_str(), fn + " A=" + show(a) + " x=" + show(x)))
            continue;
          rvec<3> const want = rmulvec(a, x); // |sum| <= 3*128*128 fits int
          vrt::nontrivial(leaves_operand_range<i8, i8>(want));
          vrt::maybe_sample();
          tbuf<i8, 3> const bx(x);
          static_assert(std::is_same_v<decltype(sa * mk_any<RV>(x)), fv::static_<int, 3>>);
          C14_EQ(rdv(sa * mk_any<RV>(x)), want, sg + ":wrong", "A*x");
          C14_EQ(rdv(ba.mat<3, 3>() * bx.vec()), want, sg + ":wrong:view", "A*x (view storages)");
        }
      }
    });
}
}

// C12 -- parse stream reports true line/column and rewinds exactly.
//
// (a) engine H (this file): BFS over operation histories
//       CHOOSE_TEXT(t) ; { get_char | get_char_error | get_position -> slot s | set_position(slot s) }*
//     on a real fcppt::parse::detail::stream over a std::basic_istringstream, for every
//     text over {a, '\n', ' ', '\t'} up to a length cap, for char and wchar_t.  The first
//     operation chooses the text, so one explorer covers all texts.
//     Reference model = (text, index): see C12_common.hpp.
//
//     Canonical state = text number, model index, "a read at end of input happened since
//     the last position operation" flag, the *sorted* multiset of saved slot indices, and
//     the observable state of the underlying std stream (rdstate and get offset).
//     Justification for merging: the three slots are interchangeable (the alphabet offers
//     every operation on every slot, so permuting slots gives an isomorphic state); a saved
//     position is a value (offset + location) that is fully determined by the index at
//     which it was taken -- and every get_position result is compared with the model and
//     with every position saved earlier at the same index, so two slots with the same index
//     hold equal values; the state of the underlying std stream is part of the key, so no
//     two states with different hidden stream state are merged; the only other state of
//     the real object, its line/column counter, is observed by check() in every state in
//     which observing does not itself change the stream flags.
//     Further explorers: hist_char_bytes (alphabet {a, '\n', 0xFF, 0x80}: bytes that are negative as char, 0xFF
//     collides with eof after narrowing) and hist_*_prefix (the first operation also chooses how many characters,
//     1 or 2, are read from the std stream with istream::get() *before* the parse stream is constructed on it;
//     the model text is then the rest of the content and the offset value of positions is not examined -- the
//     documentation does not say what it counts from -- only rewind/re-read equality, equality of positions taken
//     at the same index, and line/column relative to where the parse stream started).
// (b) engine E straight-line pass (C12_straight.cpp): read everything, rewind to everything; all byte values.
// (c) fault enumeration: C12_fault.cpp.   (d) error texts: C12_errtext.cpp.
// (e) std stream handed over in a non-good state / retry after a failure, every reading entry point: C12_state.cpp.
#include "C12_common.hpp"

#include <hist.hpp>

#include <algorithm>
#include <memory>

using vrt::hist::op;
using namespace c12;

namespace
{
enum kind
{
  CHOOSE_TEXT = 1, // a = text number, b = number of characters read from the std stream before the parse stream is built
  GET_CHAR,        // a = 0: get_char, 1: get_char_error
  GET_POS,         // a = slot
  SET_POS          // a = slot
};

int MAXLEN = 3;
int ALPHABET = 0;        // see letter() in C12_common.hpp
int SKIP_MIN = 0, SKIP_MAX = 0;
constexpr int NSLOTS = 3;

template <class Ch> struct stream_sys
{
  struct saved
  {
    std::size_t index;
    position<Ch> pos;
  };

  std::unique_ptr<string_world<Ch>> w;
  int text_no = -1;
  std::size_t skip = 0;       // characters consumed from the std stream before the parse stream existed
  std::basic_string<Ch> text; // what the parse stream reads: the content after those characters
  std::size_t index = 0;
  bool failed_read = false; // a get_char at end of input happened since the last get/set_position
  std::optional<saved> slot[NSLOTS];

  std::vector<op> enabled() const
  {
    std::vector<op> r;
    if (!w)
    {
      int const n = texts_upto(MAXLEN);
      for (int t = 0; t < n; ++t)
        for (int k = SKIP_MIN; k <= SKIP_MAX; ++k)
          if (static_cast<std::size_t>(k) <= text_by_number<Ch>(ALPHABET, t).size())
            r.push_back(op{CHOOSE_TEXT, t, k, 0, 0});
      return r;
    }
    r.push_back(op{GET_CHAR, 0, 0, 0, 0});
    r.push_back(op{GET_CHAR, 1, 0, 0, 0});
    for (int s = 0; s < NSLOTS; ++s)
      r.push_back(op{GET_POS, s, 0, 0, 0});
    for (int s = 0; s < NSLOTS; ++s)
      if (slot[s].has_value())
        r.push_back(op{SET_POS, s, 0, 0, 0});
    return r;
  }

  static std::string show(op const &o)
  {
    switch (o.k)
    {
    case CHOOSE_TEXT:
      return std::string("stream<") + cname<Ch>::v + ">(" + show_text(text_by_number<Ch>(ALPHABET, o.a)) +
             (o.b ? ", built after " + std::to_string(o.b) + " istream::get()" : std::string()) + ")";
    case GET_CHAR:
      return o.a == 0 ? "get_char" : "get_char_error";
    case GET_POS:
      return "s" + std::to_string(o.a) + "=get_position";
    case SET_POS:
      return "set_position(s" + std::to_string(o.a) + ")";
    }
    return "?";
  }

  void apply(op const &o)
  {
    std::string const t = std::string("<") + cname<Ch>::v + ">";
    try
    {
      switch (o.k)
      {
      case CHOOSE_TEXT:
      {
        text_no = o.a;
        skip = static_cast<std::size_t>(o.b);
        std::basic_string<Ch> const full = text_by_number<Ch>(ALPHABET, o.a);
        text = full.substr(skip);
        w = std::make_unique<string_world<Ch>>(full, skip);
        break;
      }
      case GET_CHAR:
      {
        fcppt::optional::object<Ch> got;
        if (o.a == 0)
          got = fcppt::parse::get_char(w->ref());
        else
        {
          fcppt::parse::result<Ch, Ch> const r = fcppt::parse::get_char_error(w->ref());
          if (r.has_success())
            got = fcppt::optional::object<Ch>(r.get_success_unsafe());
          else
          {
            std::basic_string<Ch> const &msg = r.get_failure_unsafe().get();
            VRT_CHECK(msg == widen<Ch>("EOF"), "get_char_error" + t + ":message", "error text '%s', documented: 'EOF'",
                      narrow_msg(msg).c_str());
          }
        }
        char const *fn = o.a == 0 ? "get_char" : "get_char_error";
        if (index < text.size())
        {
          VRT_CHECK(got.has_value() && got.get_unsafe() == text[index], std::string(fn) + t + ":wrong_char",
                    "at index %zu of %s: got %s, expected '%s'", index, show_text(text).c_str(), show_opt(got).c_str(),
                    show_char(text[index]).c_str());
          ++index;
        }
        else
        {
          VRT_CHECK(!got.has_value(), std::string(fn) + t + ":char_at_end", "at end of %s: got %s, expected nothing",
                    show_text(text).c_str(), show_opt(got).c_str());
          failed_read = true;
        }
        break;
      }
      case GET_POS:
      {
        position<Ch> const p = fcppt::parse::get_position(w->ref());
        std::string const d = position_diff(p, text, index, base());
        VRT_CHECK(d.empty(), "get_position" + t + (failed_read ? ":wrong_after_read_at_end" : ":wrong"), "at index %zu of %s: %s", index,
                  show_text(text).c_str(), d.c_str());
        // identical to every position observed earlier at the same index
        for (int s = 0; s < NSLOTS; ++s)
          if (slot[s].has_value() && slot[s]->index == index)
            VRT_CHECK(p == slot[s]->pos, "get_position" + t + ":differs_from_saved",
                      "position at index %zu differs from the one saved in slot %d at the same index", index, s);
        slot[o.a] = saved{index, p};
        failed_read = false;
        break;
      }
      case SET_POS:
        fcppt::parse::set_position(w->ref(), slot[o.a]->pos);
        index = slot[o.a]->index;
        failed_read = false;
        break;
      default:
        vrt::fail("harness:bad_op", "unknown op");
      }
    }
    catch (fcppt::parse::detail::exception<Ch> const &e)
    {
      std::string const name = show(o);
      vrt::fail((o.k == GET_POS ? "get_position" : o.k == SET_POS ? "set_position" : "get_char") + t + ":exception" +
                    (failed_read ? "_after_read_at_end" : ""),
                "'" + narrow_msg(e.what()) + "' thrown by " + name + " on a healthy string stream");
    }
  }

  // offsets are compared with the model only for streams built on a fresh std stream (see position_diff)
  long long base() const { return skip == 0 ? 0 : -1; }

  void check()
  {
    if (!w)
      return;
    VRT_CHECK(index <= text.size(), "harness:index", "model index out of range");
    long long const off = w->underlying_offset();
    VRT_CHECK(off == static_cast<long long>(index + skip), std::string("stream<") + cname<Ch>::v + ">:underlying_offset",
              "the underlying buffer is at offset %lld; %zu characters were read in advance, %zu were consumed/restored through the parse stream",
              off, skip, index);
    if (!failed_read)
    {
      // observer: get_position (does not alter the stream unless the eof flag is set, which the model excludes here)
      try
      {
        position<Ch> const p = w->rs.st.get_position();
        std::string const d = position_diff(p, text, index, base());
        VRT_CHECK(d.empty(), std::string("get_position<") + cname<Ch>::v + ">:wrong", "observer at index %zu of %s: %s", index,
                  show_text(text).c_str(), d.c_str());
      }
      catch (fcppt::parse::detail::exception<Ch> const &e)
      {
        vrt::fail(std::string("get_position<") + cname<Ch>::v + ">:exception", "observer: '" + narrow_msg(e.what()) + "'");
      }
    }
  }

  std::string canon() const
  {
    if (!w)
      return "init";
    std::vector<int> s;
    for (auto const &sl : slot)
      s.push_back(sl.has_value() ? static_cast<int>(sl->index) : -1);
    std::sort(s.begin(), s.end());
    std::string r = "T" + std::to_string(text_no) + "k" + std::to_string(skip) + "|i" + std::to_string(index) + (failed_read ? "|F" : "|-");
    for (int v : s)
      r += "|" + std::to_string(v);
    r += "|rd" + std::to_string(static_cast<int>(w->is.rdstate())) + "|o" + std::to_string(w->underlying_offset());
    return r;
  }
};

// alphabet, [skip_min, skip_max], length caps per tier
template <class Ch> void hist_shard(char const *name, int alphabet = 0, int skip_min = 0, int skip_max = 0, int len_quick = 4, int len_thorough = 6)
{
  vrt::shard(name, [=] {
    MAXLEN = vrt::thorough() ? len_thorough : len_quick;
    ALPHABET = alphabet;
    SKIP_MIN = skip_min;
    SKIP_MAX = skip_max;
    vrt::hist::limits l;
    l.max_depth = 64;
    l.max_states = 12000000;
    vrt::hist::explorer<stream_sys<Ch>> e(name, l);
    e.run();
    vrt::count(std::string("texts_in_") + name, static_cast<std::uint64_t>(texts_upto(MAXLEN)));
  }, 7200);
}
}

int main(int argc, char **argv)
{
  vrt::parse_args(argc, argv);
  hist_shard<char>("hist_char");
  hist_shard<wchar_t>("hist_wchar_t");
  // bytes that are negative as char / collide with eof after narrowing
  hist_shard<char>("hist_char_bytes", 2);
  // parse stream built on a std stream from which 1 or 2 characters were already read
  hist_shard<char>("hist_char_prefix", 0, 1, 2, 4, 5);
  hist_shard<wchar_t>("hist_wchar_t_prefix", 0, 1, 2, 4, 5);
  c12::register_straight();
  c12::register_fault();
  c12::register_errtext();
  c12::register_bytes();
  c12::register_long();
  c12::register_state();
  return vrt::run(argc, argv);
}

// C04 (part 4) -- the same combinators with payload types and continuation styles for which a
// move is not a copy.
//
// Payload families (each gives a success domain P = {0,1,2}, a failure domain Q = {0,1} and variant
// alternatives A (3), B (2), C (2)):
//   val         the int wrapper of the main harness (move poisons the source)
//   heap_string the value is carried by a std::string far beyond the small-string buffer *and* an int; a
//               moved-from object has an empty string and a poisoned int; ok() demands that both agree, so
//               a sliced / half-moved / dangling payload is seen (and ASan sees the heap block)
//   move_only   owns a heap int through std::unique_ptr, copy operations deleted
// Value category of the source (template parameter Cat): const&, &, &&.
// Continuation style (template parameter Style):
//   by_value  f(T a)            consumes an rvalue argument
//   by_cref   f(T const &a)     never consumes
//   forward   f(auto &&a)       generic; moves the argument into a local iff it was passed as an rvalue
// Combinations that cannot be well-formed are left out at compile time (copying a move_only payload:
// by_value/forward continuations or source-returning combinators on an lvalue source; optional::filter
// always passes an lvalue, so move_only needs by_cref there).
//
// Oracle: exactly as in the main harness -- result == tagged-union model, no moved-from value in a
// result, exact call counts and arguments, lvalue sources unchanged.
#pragma once
#include "C04_common.hpp"

#include <fcppt/either/bind.hpp>
#include <fcppt/either/first_success.hpp>
#include <fcppt/either/map.hpp>
#include <fcppt/either/map_failure.hpp>
#include <fcppt/either/match.hpp>
#include <fcppt/either/object_impl.hpp>
#include <fcppt/either/sequence.hpp>
#include <fcppt/optional/alternative.hpp>
#include <fcppt/optional/bind.hpp>
#include <fcppt/optional/combine.hpp>
#include <fcppt/optional/filter.hpp>
#include <fcppt/optional/from.hpp>
#include <fcppt/optional/map.hpp>
#include <fcppt/optional/maybe.hpp>
#include <fcppt/optional/object_impl.hpp>
#include <fcppt/variant/apply.hpp>
#include <fcppt/variant/match.hpp>
#include <fcppt/variant/object_impl.hpp>

#include <map>
#include <memory>

namespace c04
{
// ---------------------------------------------------------------- payload types
template <class Tag, int N> struct hval
{
  static constexpr int size = N;
  static constexpr bool copyable = true;
  std::string s;
  int v;
  static std::string text(int x) { return "payload-" + std::to_string(x) + "-" + std::string(56, static_cast<char>('a' + (x & 7))); }
  explicit hval(int x) : s(text(x)), v(x) {}
  hval(hval const &o) : s(o.s), v(o.v) {}
  hval(hval &&o) noexcept : s(std::move(o.s)), v(o.v)
  {
    o.v = POISON;
    o.s.clear();
  }
  hval &operator=(hval const &o)
  {
    s = o.s;
    v = o.v;
    return *this;
  }
  hval &operator=(hval &&o) noexcept
  {
    if (&o != this)
    {
      s = std::move(o.s);
      v = o.v;
      o.v = POISON;
      o.s.clear();
    }
    return *this;
  }
  bool ok() const { return v >= 0 && v < N && s == text(v); }
};

template <class Tag, int N> struct mval
{
  static constexpr int size = N;
  static constexpr bool copyable = false;
  std::unique_ptr<int> p;
  int v;
  explicit mval(int x) : p(new int(x)), v(x) {}
  mval(mval const &) = delete;
  mval &operator=(mval const &) = delete;
  mval(mval &&o) noexcept : p(std::move(o.p)), v(o.v) { o.v = POISON; }
  mval &operator=(mval &&o) noexcept
  {
    if (&o != this)
    {
      p = std::move(o.p);
      v = o.v;
      o.v = POISON;
    }
    return *this;
  }
  bool ok() const { return v >= 0 && v < N && p && *p == v; }
};

struct tagP;
struct tagQ;
struct tagRA;
struct tagRB;
struct tagRC;
struct fam_val
{
  template <class Tag, int N> using t = val<Tag, N>;
  static constexpr char const *name = "val";
};
struct fam_heap
{
  template <class Tag, int N> using t = hval<Tag, N>;
  static constexpr char const *name = "heap_string";
};
struct fam_move_only
{
  template <class Tag, int N> using t = mval<Tag, N>;
  static constexpr char const *name = "move_only";
};

inline char const *style_name(int s) { return s == 0 ? "by_value" : s == 1 ? "by_cref" : "forward"; }

// the value a payload object shows to an observer: its int if the object is intact, else a code no model value equals
template <class T> inline int seen(T const &a) { return a.ok() ? a.v : -500; }

// ---------------------------------------------------------------- continuations in the three styles
// body: (int value, bool intact) -> Out
template <int Style, class In, class Body> inline auto un(Body body)
{
  if constexpr (Style == 0)
    return [body](In a) { return body(a.v, a.ok()); };
  else if constexpr (Style == 1)
    return [body](In const &a) { return body(a.v, a.ok()); };
  else
    return [body](auto &&a)
    {
      std::remove_cvref_t<decltype(a)> const local(std::forward<decltype(a)>(a));
      return body(local.v, local.ok());
    };
}
template <int Style, class In1, class In2, class Body> inline auto bin(Body body)
{
  if constexpr (Style == 0)
    return [body](In1 a, In2 b) { return body(a.v, b.v, a.ok() && b.ok()); };
  else if constexpr (Style == 1)
    return [body](In1 const &a, In2 const &b) { return body(a.v, b.v, a.ok() && b.ok()); };
  else
    return [body](auto &&a, auto &&b)
    {
      std::remove_cvref_t<decltype(a)> const la(std::forward<decltype(a)>(a));
      std::remove_cvref_t<decltype(b)> const lb(std::forward<decltype(b)>(b));
      return body(la.v, lb.v, la.ok() && lb.ok());
    };
}
// pass-through continuation: returns its argument
template <int Style, class In> inline auto passthrough(probe &p)
{
  if constexpr (Style == 0)
    return [&p](In a) -> In
    {
      p.hit(a.v, a.ok());
      return a;
    };
  else if constexpr (Style == 1)
    return [&p](In const &a) -> In
    {
      p.hit(a.v, a.ok());
      return a;
    };
  else
    return [&p](auto &&a) -> In
    {
      p.hit(a.v, a.ok());
      return In(std::forward<decltype(a)>(a));
    };
}

template <int Cat, class T, class F> inline decltype(auto) with_cat(T &obj, F const &f)
{
  if constexpr (Cat == 0)
    return f(std::as_const(obj));
  else if constexpr (Cat == 1)
    return f(obj);
  else
    return f(std::move(obj));
}

// visitor over variant alternatives in the three styles: one table over the seven values
template <int Style, class A, class B, class C> struct rich_visitor
{
  tab const *t;
  probe *p;
  static int g(A const &a) { return a.ok() ? a.v : -100; }
  static int g(B const &b) { return b.ok() ? 3 + b.v : -100; }
  static int g(C const &c) { return c.ok() ? 5 + c.v : -100; }
  template <class T> int run(T const &a) const
  {
    int const c = g(a);
    p->hit(c, c >= 0);
    return (*t)[c];
  }
  // by_value
  template <class T> int operator()(T a) const requires(Style == 0) { return run(a); }
  // by_cref
  template <class T> int operator()(T const &a) const requires(Style == 1) { return run(a); }
  // forward
  template <class T> int operator()(T &&a) const requires(Style == 2)
  {
    std::remove_cvref_t<T> const local(std::forward<T>(a));
    return run(local);
  }
};

template <class Fam, int Cat, int Style> struct rich_suite
{
  using P = typename Fam::template t<tagP, 3>;
  using Q = typename Fam::template t<tagQ, 2>;
  using A = typename Fam::template t<tagRA, 3>;
  using B = typename Fam::template t<tagRB, 2>;
  using C = typename Fam::template t<tagRC, 2>;
  using OP = fcppt::optional::object<P>;
  using EP = fcppt::either::object<Q, P>;
  using V = fcppt::variant::object<A, B, C>;

  // a source-returning combinator / a consuming continuation is well-formed for this source category
  static constexpr bool src_ok = P::copyable || Cat == 2;
  static constexpr bool style_ok = Style == 1 || src_ok;

  static std::string const &prefix()
  {
    static std::string const s = std::string("rich<") + Fam::name + "," + cat_name(Cat) + "," + style_name(Style) + ">::";
    return s;
  }
  static char const *nm(char const *fn)
  {
    static std::map<std::string, std::string> names;
    return names.try_emplace(fn, prefix() + fn).first->second.c_str();
  }
  static std::string sig(char const *s) { return std::string(s) + ":" + Fam::name; }
  static std::string how() { return std::string(" [") + Fam::name + " payload, source " + cat_name(Cat) + ", continuation " + style_name(Style) + "]"; }

  static OP mk_op(int c) { return c == 0 ? OP{} : OP{P{c - 1}}; }
  static int code(OP const &o) { return o.has_value() ? (o.get_unsafe().ok() ? 1 + o.get_unsafe().v : -500) : 0; }
  static EP mk_ep(int c) { return c < 2 ? EP{Q{c}} : EP{P{c - 2}}; }
  static int code(EP const &e)
  {
    if (e.has_success() == e.has_failure())
      return -1000;
    if (e.has_success())
      return e.get_success_unsafe().ok() ? 2 + e.get_success_unsafe().v : -500;
    return e.get_failure_unsafe().ok() ? e.get_failure_unsafe().v : -500;
  }
  static std::string sh(int c) { return show_eith(c, 2); }
  static V mk_v(int c) { return c < 3 ? V{A{c}} : c < 5 ? V{B{c - 3}} : V{C{c - 5}}; }
  static int code(V const &v)
  {
    switch (v.type_index())
    {
    case 0: return v.template get_unsafe<A>().ok() ? v.template get_unsafe<A>().v : -500;
    case 1: return v.template get_unsafe<B>().ok() ? 3 + v.template get_unsafe<B>().v : -500;
    case 2: return v.template get_unsafe<C>().ok() ? 5 + v.template get_unsafe<C>().v : -500;
    }
    return -1000;
  }
  static std::string sv(int c)
  {
    if (c < 0 || c >= 7)
      return "INVALID(" + std::to_string(c) + ")";
    int const tag = c < 3 ? 0 : c < 5 ? 1 : 2;
    return std::string(1, "ABC"[tag]) + std::to_string(c < 3 ? c : c < 5 ? c - 3 : c - 5);
  }

  // ------------------------------------------------------------ optional: filter map bind maybe from alternative
  static void optional_cases()
  {
    // filter hands the predicate an lvalue whatever the source is: a move_only payload needs by_cref
    if constexpr (src_ok && (Style == 1 || P::copyable))
      for (int m = 0; m < 4; ++m)
        for (int pr = 0; pr < 8; ++pr)
        {
          if (!vrt::begin(nm("optional::filter<m,pred>"), m, pr))
            continue;
          tab const t = decode(pr, 2, 3);
          auto desc = [&] { return "optional::filter(" + show_opt(m) + ", pred=" + show_tab(t, show_int) + ")" + how(); };
          vrt::nontrivial(m != 0);
          SAMPLE();
          probe p;
          auto const pred = un<Style, P>(
              [&](int v, bool ok) -> bool
              {
                p.hit(v, ok);
                return t[v] != 0;
              });
          OP o = mk_op(m);
          OP const r = with_cat<Cat>(o, [&](auto &&x) { return fcppt::optional::filter(std::forward<decltype(x)>(x), pred); });
          int const want = (m != 0 && t[m - 1]) ? m : 0;
          CK(code(r) == want, sig("optional::filter:result"), "got %s want %s", show_opt(code(r)).c_str(), show_opt(want).c_str());
          CK(p.is(m != 0, m - 1), sig("optional::filter:calls"), "%s", p.show().c_str());
          if (Cat < 2)
            CK(code(o) == m, sig("optional::filter:source_modified"), "lvalue source is now %s", show_opt(code(o)).c_str());
        }
    if constexpr (style_ok)
    {
      for (int m = 0; m < 4; ++m)
        for (int f = 0; f < 27; ++f)
        {
          if (!vrt::begin(nm("optional::map<m,f>"), m, f))
            continue;
          tab const t = decode(f, 3, 3);
          auto desc = [&] { return "optional::map(" + show_opt(m) + ", " + show_tab(t, show_int) + ")" + how(); };
          vrt::nontrivial(m != 0);
          SAMPLE();
          probe p;
          auto const fn = un<Style, P>(
              [&](int v, bool ok) -> P
              {
                p.hit(v, ok);
                return P{t[v]};
              });
          OP o = mk_op(m);
          OP const r = with_cat<Cat>(o, [&](auto &&x) { return fcppt::optional::map(std::forward<decltype(x)>(x), fn); });
          int const want = m == 0 ? 0 : 1 + t[m - 1];
          CK(code(r) == want, sig("optional::map:result"), "got %s want %s", show_opt(code(r)).c_str(), show_opt(want).c_str());
          CK(p.is(m != 0, m - 1), sig("optional::map:calls"), "%s", p.show().c_str());
          if (Cat < 2)
            CK(code(o) == m, sig("optional::map:source_modified"), "lvalue source is now %s", show_opt(code(o)).c_str());
        }
      for (int m = 0; m < 4; ++m)
        for (int f = 0; f < 64; ++f)
        {
          if (!vrt::begin(nm("optional::bind<m,f>"), m, f))
            continue;
          tab const t = decode(f, 4, 3);
          auto desc = [&] { return "optional::bind(" + show_opt(m) + ", " + show_tab(t, show_opt) + ")" + how(); };
          vrt::nontrivial(m != 0);
          SAMPLE();
          probe p;
          auto const fn = un<Style, P>(
              [&](int v, bool ok) -> OP
              {
                p.hit(v, ok);
                return mk_op(t[v]);
              });
          OP o = mk_op(m);
          OP const r = with_cat<Cat>(o, [&](auto &&x) { return fcppt::optional::bind(std::forward<decltype(x)>(x), fn); });
          int const want = m == 0 ? 0 : t[m - 1];
          CK(code(r) == want, sig("optional::bind:result"), "got %s want %s", show_opt(code(r)).c_str(), show_opt(want).c_str());
          CK(p.is(m != 0, m - 1), sig("optional::bind:calls"), "%s", p.show().c_str());
          if (Cat < 2)
            CK(code(o) == m, sig("optional::bind:source_modified"), "lvalue source is now %s", show_opt(code(o)).c_str());
        }
      for (int m = 0; m < 4; ++m)
        for (int d = 0; d < 3; ++d)
          for (int f = 0; f < 27; ++f)
          {
            if (!vrt::begin(nm("optional::maybe<m,default,f>"), m, d, f))
              continue;
            tab const t = decode(f, 3, 3);
            auto desc = [&] { return "optional::maybe(" + show_opt(m) + ", default=" + std::to_string(d) + ", " + show_tab(t, show_int) + ")" + how(); };
            vrt::nontrivial(m != 0);
            SAMPLE();
            probe p, pd;
            auto const fn = un<Style, P>(
                [&](int v, bool ok) -> P
                {
                  p.hit(v, ok);
                  return P{t[v]};
                });
            auto const def = [&pd, d]() -> P
            {
              pd.hit(d);
              return P{d};
            };
            OP o = mk_op(m);
            P const r = with_cat<Cat>(o, [&](auto &&x) { return fcppt::optional::maybe(std::forward<decltype(x)>(x), def, fn); });
            int const want = m == 0 ? d : t[m - 1];
            CK(seen(r) == want, sig("optional::maybe:result"), "got %d want %d", seen(r), want);
            CK(p.is(m != 0, m - 1) && pd.is(m == 0, d), sig("optional::maybe:calls"), "transform %s default %s", p.show().c_str(), pd.show().c_str());
            if (Cat < 2)
              CK(code(o) == m, sig("optional::maybe:source_modified"), "lvalue source is now %s", show_opt(code(o)).c_str());
          }
      // the payload itself travels through the continuation into the result
      if constexpr (Style != 1 || P::copyable)
        for (int m = 0; m < 4; ++m)
        {
          if (!vrt::begin(nm("optional::map_passthrough<m>"), m))
            continue;
          auto desc = [&] { return "optional::map / bind / maybe(" + show_opt(m) + ", x -> x)" + how(); };
          vrt::nontrivial(m != 0);
          SAMPLE();
          {
            probe p;
            auto const id = passthrough<Style, P>(p);
            OP o = mk_op(m);
            OP const r = with_cat<Cat>(o, [&](auto &&x) { return fcppt::optional::map(std::forward<decltype(x)>(x), id); });
            CK(code(r) == m && p.is(m != 0, m - 1), sig("optional::map:passthrough"), "got %s; %s", show_opt(code(r)).c_str(), p.show().c_str());
            if (Cat < 2)
              CK(code(o) == m, sig("optional::map:source_modified"), "lvalue source is now %s", show_opt(code(o)).c_str());
          }
          {
            probe p;
            auto const id = passthrough<Style, P>(p);
            OP o = mk_op(m);
            OP const r = with_cat<Cat>(o, [&](auto &&x) { return fcppt::optional::bind(std::forward<decltype(x)>(x), [&](auto &&y) { return OP{id(std::forward<decltype(y)>(y))}; }); });
            CK(code(r) == m && p.is(m != 0, m - 1), sig("optional::bind:passthrough"), "got %s; %s", show_opt(code(r)).c_str(), p.show().c_str());
          }
          {
            probe p;
            auto const id = passthrough<Style, P>(p);
            OP o = mk_op(m);
            P const r = with_cat<Cat>(o, [&](auto &&x) { return fcppt::optional::maybe(std::forward<decltype(x)>(x), [] { return P{2}; }, id); });
            CK(seen(r) == (m == 0 ? 2 : m - 1) && p.is(m != 0, m - 1), sig("optional::maybe:passthrough"), "got %d; %s", seen(r), p.show().c_str());
          }
        }
    }
    if constexpr (src_ok && Style == 0) // no unary continuation: run once per source category
    {
      for (int m = 0; m < 4; ++m)
        for (int d = 0; d < 3; ++d)
        {
          if (!vrt::begin(nm("optional::from<m,default>"), m, d))
            continue;
          auto desc = [&] { return "optional::from(" + show_opt(m) + ", ()->" + std::to_string(d) + ")" + how(); };
          vrt::nontrivial(m != 0);
          SAMPLE();
          probe pd;
          auto const def = [&pd, d]() -> P
          {
            pd.hit(d);
            return P{d};
          };
          OP o = mk_op(m);
          P const r = with_cat<Cat>(o, [&](auto &&x) { return fcppt::optional::from(std::forward<decltype(x)>(x), def); });
          CK(seen(r) == (m == 0 ? d : m - 1), sig("optional::from:result"), "got %d", seen(r));
          CK(pd.is(m == 0, d), sig("optional::from:default_calls"), "%s", pd.show().c_str());
          if (Cat < 2)
            CK(code(o) == m, sig("optional::from:source_modified"), "lvalue source is now %s", show_opt(code(o)).c_str());
        }
      for (int a = 0; a < 4; ++a)
        for (int b = 0; b < 4; ++b)
        {
          if (!vrt::begin(nm("optional::alternative<a,b>"), a, b))
            continue;
          auto desc = [&] { return "optional::alternative(" + show_opt(a) + ", ()->" + show_opt(b) + ")" + how(); };
          vrt::nontrivial(a != 0);
          SAMPLE();
          probe p;
          auto const second = [&p, b]() -> OP
          {
            p.hit(b);
            return mk_op(b);
          };
          OP o = mk_op(a);
          OP const r = with_cat<Cat>(o, [&](auto &&x) { return fcppt::optional::alternative(std::forward<decltype(x)>(x), second); });
          CK(code(r) == (a != 0 ? a : b), sig("optional::alternative:result"), "got %s", show_opt(code(r)).c_str());
          if (a == 0)
            CK(p.is(1, b), sig("optional::alternative:calls"), "%s", p.show().c_str());
          else // laziness is not promised by the documentation -> information only
            INFO_ONLY(p.calls == 0, "optional::alternative:second_called_although_first_set");
          if (Cat < 2)
            CK(code(o) == a, sig("optional::alternative:source_modified"), "lvalue source is now %s", show_opt(code(o)).c_str());
        }
    }
  }

  // ------------------------------------------------------------ optional::combine over all binary tables
  static void combine_cases()
  {
    if constexpr (src_ok)
    {
      int const base = bin_base();
      int const ntab = ipow(base, 9);
      for (int f = 0; f < ntab; ++f)
      {
        if (vrt::out_of_time())
          return;
        tab const t = decode(f, base, 9);
        for (int a = 0; a < 4; ++a)
          for (int b = 0; b < 4; ++b)
          {
            if (!vrt::begin(nm("optional::combine<f,a,b>"), f, a, b))
              continue;
            auto desc = [&] { return "optional::combine(" + show_opt(a) + ", " + show_opt(b) + ", f=" + show_tab(t, show_int) + " [index 3x+y])" + how(); };
            bool const both = a != 0 && b != 0;
            int const idx = both ? (a - 1) * 3 + (b - 1) : -1;
            vrt::nontrivial(both);
            SAMPLE();
            probe p;
            auto const fn = bin<Style, P, P>(
                [&](int x, int y, bool ok) -> P
                {
                  int const i = ok ? x * 3 + y : -1;
                  p.hit(i, ok);
                  return P{t[i]};
                });
            OP oa = mk_op(a), ob = mk_op(b);
            OP const r = with_cat<Cat>(oa,
                                       [&](auto &&x)
                                       {
                                         return with_cat<Cat>(ob,
                                                              [&](auto &&y)
                                                              { return fcppt::optional::combine(std::forward<decltype(x)>(x), std::forward<decltype(y)>(y), fn); });
                                       });
            int const want = both ? 1 + t[idx] : (a != 0 ? a : b);
            CK(code(r) == want, sig("optional::combine:result"), "got %s want %s", show_opt(code(r)).c_str(), show_opt(want).c_str());
            CK(p.is(both, idx), sig("optional::combine:calls"), "%s", p.show().c_str());
            if (Cat < 2)
              CK(code(oa) == a && code(ob) == b, sig("optional::combine:source_modified"), "lvalue sources now %s, %s", show_opt(code(oa)).c_str(),
                 show_opt(code(ob)).c_str());
          }
      }
    }
  }

  // ------------------------------------------------------------ either: map map_failure bind match first_success sequence
  static void either_cases()
  {
    // the untouched alternative of an lvalue either is copied into the result: lvalue sources need a copyable payload
    if constexpr (src_ok)
    {
      for (int c = 0; c < 5; ++c)
        for (int f = 0; f < 27; ++f)
        {
          if (!vrt::begin(nm("either::map<c,f>"), c, f))
            continue;
          tab const t = decode(f, 3, 3);
          auto desc = [&] { return "either::map(" + sh(c) + ", " + show_tab(t, show_int) + ")" + how(); };
          vrt::nontrivial(c >= 2);
          SAMPLE();
          probe p;
          auto const fn = un<Style, P>(
              [&](int v, bool ok) -> P
              {
                p.hit(v, ok);
                return P{t[v]};
              });
          EP e = mk_ep(c);
          EP const r = with_cat<Cat>(e, [&](auto &&x) { return fcppt::either::map(std::forward<decltype(x)>(x), fn); });
          int const want = c < 2 ? c : 2 + t[c - 2];
          CK(code(r) == want, sig("either::map:result"), "got %s want %s", sh(code(r)).c_str(), sh(want).c_str());
          CK(p.is(c >= 2, c - 2), sig("either::map:calls"), "%s", p.show().c_str());
          if (Cat < 2)
            CK(code(e) == c, sig("either::map:source_modified"), "lvalue source is now %s", sh(code(e)).c_str());
        }
      for (int c = 0; c < 5; ++c)
        for (int f = 0; f < 4; ++f)
        {
          if (!vrt::begin(nm("either::map_failure<c,f>"), c, f))
            continue;
          tab const t = decode(f, 2, 2);
          auto desc = [&] { return "either::map_failure(" + sh(c) + ", " + show_tab(t, show_int) + ")" + how(); };
          vrt::nontrivial(c < 2);
          SAMPLE();
          probe p;
          auto const fn = un<Style, Q>(
              [&](int v, bool ok) -> Q
              {
                p.hit(v, ok);
                return Q{t[v]};
              });
          EP e = mk_ep(c);
          EP const r = with_cat<Cat>(e, [&](auto &&x) { return fcppt::either::map_failure(std::forward<decltype(x)>(x), fn); });
          int const want = c < 2 ? t[c] : c;
          CK(code(r) == want, sig("either::map_failure:result"), "got %s want %s", sh(code(r)).c_str(), sh(want).c_str());
          CK(p.is(c < 2, c), sig("either::map_failure:calls"), "%s", p.show().c_str());
          if (Cat < 2)
            CK(code(e) == c, sig("either::map_failure:source_modified"), "lvalue source is now %s", sh(code(e)).c_str());
        }
      for (int c = 0; c < 5; ++c)
        for (int f = 0; f < 125; ++f)
        {
          if (!vrt::begin(nm("either::bind<c,f>"), c, f))
            continue;
          tab const t = decode(f, 5, 3);
          auto desc = [&] { return "either::bind(" + sh(c) + ", " + show_tab(t, [](int x) { return show_eith(x, 2); }) + ")" + how(); };
          vrt::nontrivial(c >= 2);
          SAMPLE();
          probe p;
          auto const fn = un<Style, P>(
              [&](int v, bool ok) -> EP
              {
                p.hit(v, ok);
                return mk_ep(t[v]);
              });
          EP e = mk_ep(c);
          EP const r = with_cat<Cat>(e, [&](auto &&x) { return fcppt::either::bind(std::forward<decltype(x)>(x), fn); });
          int const want = c < 2 ? c : t[c - 2];
          CK(code(r) == want, sig("either::bind:result"), "got %s want %s", sh(code(r)).c_str(), sh(want).c_str());
          CK(p.is(c >= 2, c - 2), sig("either::bind:calls"), "%s", p.show().c_str());
          if (Cat < 2)
            CK(code(e) == c, sig("either::bind:source_modified"), "lvalue source is now %s", sh(code(e)).c_str());
        }
      for (int c = 0; c < 5; ++c)
        for (int ff = 0; ff < 9; ++ff)
          for (int sf = 0; sf < 27; ++sf)
          {
            if (!vrt::begin(nm("either::match<c,ffail,fsucc>"), c, ff, sf))
              continue;
            tab const tf = decode(ff, 3, 2), ts = decode(sf, 3, 3);
            auto desc = [&] { return "either::match(" + sh(c) + ", on_failure=" + show_tab(tf, show_int) + ", on_success=" + show_tab(ts, show_int) + ")" + how(); };
            vrt::nontrivial(true);
            SAMPLE();
            probe pf, ps;
            auto const onf = un<Style, Q>(
                [&](int v, bool ok) -> P
                {
                  pf.hit(v, ok);
                  return P{tf[v]};
                });
            auto const ons = un<Style, P>(
                [&](int v, bool ok) -> P
                {
                  ps.hit(v, ok);
                  return P{ts[v]};
                });
            EP e = mk_ep(c);
            P const r = with_cat<Cat>(e, [&](auto &&x) { return fcppt::either::match(std::forward<decltype(x)>(x), onf, ons); });
            int const want = c < 2 ? tf[c] : ts[c - 2];
            CK(seen(r) == want, sig("either::match:result"), "got %d want %d", seen(r), want);
            CK(pf.is(c < 2, c) && ps.is(c >= 2, c - 2), sig("either::match:calls"), "on_failure %s on_success %s", pf.show().c_str(), ps.show().c_str());
            if (Cat < 2)
              CK(code(e) == c, sig("either::match:source_modified"), "lvalue source is now %s", sh(code(e)).c_str());
          }
      if constexpr (Style != 1 || P::copyable)
        for (int c = 0; c < 5; ++c)
        {
          if (!vrt::begin(nm("either::passthrough<c>"), c))
            continue;
          auto desc = [&] { return "either::map / map_failure / bind(" + sh(c) + ", x -> x)" + how(); };
          vrt::nontrivial(true);
          SAMPLE();
          {
            probe p;
            auto const id = passthrough<Style, P>(p);
            EP e = mk_ep(c);
            EP const r = with_cat<Cat>(e, [&](auto &&x) { return fcppt::either::map(std::forward<decltype(x)>(x), id); });
            CK(code(r) == c && p.is(c >= 2, c - 2), sig("either::map:passthrough"), "got %s; %s", sh(code(r)).c_str(), p.show().c_str());
          }
          {
            probe p;
            auto const id = passthrough<Style, Q>(p);
            EP e = mk_ep(c);
            EP const r = with_cat<Cat>(e, [&](auto &&x) { return fcppt::either::map_failure(std::forward<decltype(x)>(x), id); });
            CK(code(r) == c && p.is(c < 2, c), sig("either::map_failure:passthrough"), "got %s; %s", sh(code(r)).c_str(), p.show().c_str());
          }
          {
            probe p;
            auto const id = passthrough<Style, P>(p);
            EP e = mk_ep(c);
            EP const r = with_cat<Cat>(e, [&](auto &&x) { return fcppt::either::bind(std::forward<decltype(x)>(x), [&](auto &&y) { return EP{id(std::forward<decltype(y)>(y))}; }); });
            CK(code(r) == c && p.is(c >= 2, c - 2), sig("either::bind:passthrough"), "got %s; %s", sh(code(r)).c_str(), p.show().c_str());
          }
        }
    }
    if constexpr (src_ok && Style == 0) // no unary continuation: once per source category
    {
      auto const seqs = all_seqs(5, max_len());
      for (std::size_t si = 0; si < seqs.size(); ++si)
      {
        std::vector<int> const &s = seqs[si];
        if (!vrt::begin(nm("either::sequence<seq>"), si))
          continue;
        auto desc = [&] { return "either::sequence(" + show_seq(s, [](int x) { return show_eith(x, 2); }) + ")" + how(); };
        int first_fail = -1;
        std::vector<int> succ;
        for (int c : s)
        {
          if (c < 2 && first_fail < 0)
            first_fail = c;
          if (c >= 2)
            succ.push_back(c - 2);
        }
        vrt::nontrivial(!s.empty());
        SAMPLE();
        std::vector<EP> src;
        for (int c : s)
          src.push_back(mk_ep(c));
        fcppt::either::object<Q, std::vector<P>> const r =
            with_cat<Cat>(src, [&](auto &&x) { return fcppt::either::sequence<std::vector<P>>(std::forward<decltype(x)>(x)); });
        if (first_fail >= 0)
          CK(r.has_failure() && seen(r.get_failure_unsafe()) == first_fail, sig("either::sequence:failure"), "want first failure %d, got %s", first_fail,
             r.has_failure() ? std::to_string(seen(r.get_failure_unsafe())).c_str() : "success");
        else
        {
          std::vector<int> got;
          if (r.has_success())
            for (auto const &x : r.get_success_unsafe())
              got.push_back(seen(x));
          CK(r.has_success() && got == succ, sig("either::sequence:success"), "want %s, got %s", show_seq(succ, show_int).c_str(),
             r.has_success() ? show_seq(got, show_int).c_str() : "failure");
        }
        if (Cat < 2)
        {
          std::vector<int> now;
          for (auto const &x : src)
            now.push_back(code(x));
          CK(now == s, sig("either::sequence:source_modified"), "lvalue source is now %s", show_seq(now, [](int x) { return show_eith(x, 2); }).c_str());
        }
      }
    }
    if constexpr (Cat == 2 && Style == 0) // first_success takes no either argument: once per family
    {
      struct thunk
      {
        int result;
        probe *p;
        EP operator()() const
        {
          p->hit(result);
          return mk_ep(result);
        }
      };
      auto const seqs = all_seqs(5, max_len());
      for (std::size_t si = 0; si < seqs.size(); ++si)
      {
        std::vector<int> const &s = seqs[si];
        if (!vrt::begin(nm("either::first_success<seq>"), si))
          continue;
        auto desc = [&] { return "either::first_success(functions returning " + show_seq(s, [](int x) { return show_eith(x, 2); }) + ")" + how(); };
        vrt::nontrivial(!s.empty());
        SAMPLE();
        std::vector<probe> probes(s.size());
        std::vector<thunk> fns;
        for (std::size_t i = 0; i < s.size(); ++i)
          fns.push_back(thunk{s[i], &probes[i]});
        fcppt::either::object<std::vector<Q>, P> const r = fcppt::either::first_success(fns);
        std::size_t first = s.size();
        std::vector<int> fails;
        for (std::size_t i = 0; i < s.size(); ++i)
        {
          if (s[i] >= 2)
          {
            first = i;
            break;
          }
          fails.push_back(s[i]);
        }
        if (first < s.size())
          CK(r.has_success() && seen(r.get_success_unsafe()) == s[first] - 2, sig("either::first_success:success"), "want success %d, got %s", s[first] - 2,
             r.has_success() ? std::to_string(seen(r.get_success_unsafe())).c_str() : "failure");
        else
        {
          std::vector<int> got;
          if (r.has_failure())
            for (auto const &x : r.get_failure_unsafe())
              got.push_back(seen(x));
          CK(r.has_failure() && got == fails, sig("either::first_success:failures"), "want failures %s, got %s", show_seq(fails, show_int).c_str(),
             r.has_failure() ? show_seq(got, show_int).c_str() : "success");
        }
        for (std::size_t i = 0; i < s.size(); ++i)
          INFO_ONLY(probes[i].calls == (i <= first ? 1 : 0), "either::first_success:calls"); // not fixed by the documentation
      }
    }
  }

  // ------------------------------------------------------------ variant: match, apply
  static void variant_cases()
  {
    if constexpr (style_ok)
    {
      int const mb = vrt::thorough() ? 3 : 2; // codomain of the three match tables
      int const na = ipow(mb, 3), nb = ipow(mb, 2);
      for (int fa = 0; fa < na; ++fa)
        for (int fb = 0; fb < nb; ++fb)
          for (int fc = 0; fc < nb; ++fc)
          {
            tab const ta = decode(fa, mb, 3), tb = decode(fb, mb, 2), tc = decode(fc, mb, 2);
            for (int c = 0; c < 7; ++c)
            {
              if (!vrt::begin(nm("variant::match<c,fa,fb,fc>"), c, fa, fb, fc))
                continue;
              auto desc = [&]
              { return "variant::match(" + sv(c) + ", A->" + show_tab(ta, show_int) + ", B->" + show_tab(tb, show_int) + ", C->" + show_tab(tc, show_int) + ")" + how(); };
              vrt::nontrivial(true);
              SAMPLE();
              probe pa, pb, pc;
              auto const ga = un<Style, A>(
                  [&](int v, bool ok) -> P
                  {
                    pa.hit(v, ok);
                    return P{ta[v]};
                  });
              auto const gb = un<Style, B>(
                  [&](int v, bool ok) -> P
                  {
                    pb.hit(v, ok);
                    return P{tb[v]};
                  });
              auto const gc = un<Style, C>(
                  [&](int v, bool ok) -> P
                  {
                    pc.hit(v, ok);
                    return P{tc[v]};
                  });
              V v = mk_v(c);
              P const r = with_cat<Cat>(v, [&](auto &&x) { return fcppt::variant::match(std::forward<decltype(x)>(x), ga, gb, gc); });
              int const tg = c < 3 ? 0 : c < 5 ? 1 : 2, x = c < 3 ? c : c < 5 ? c - 3 : c - 5;
              int const want = tg == 0 ? ta[x] : tg == 1 ? tb[x] : tc[x];
              CK(seen(r) == want, sig("variant::match:result"), "got %d want %d", seen(r), want);
              CK(pa.is(tg == 0, x) && pb.is(tg == 1, x) && pc.is(tg == 2, x), sig("variant::match:calls"), "A-fn %s, B-fn %s, C-fn %s", pa.show().c_str(),
                 pb.show().c_str(), pc.show().c_str());
              if (Cat < 2)
                CK(code(v) == c, sig("variant::match:source_modified"), "lvalue source is now %s", sv(code(v)).c_str());
            }
          }
      int const ntab = ipow(mb, 7);
      for (int f = 0; f < ntab; ++f)
      {
        tab const t = decode(f, mb, 7);
        for (int c = 0; c < 7; ++c)
        {
          if (!vrt::begin(nm("variant::apply<c,f>"), c, f))
            continue;
          auto desc = [&] { return "variant::apply(visitor table " + show_tab(t, show_int) + " [A0 A1 A2 B0 B1 C0 C1], " + sv(c) + ")" + how(); };
          vrt::nontrivial(true);
          SAMPLE();
          probe p;
          rich_visitor<Style, A, B, C> const vis{&t, &p};
          V v = mk_v(c);
          int const r = with_cat<Cat>(v, [&](auto &&x) { return fcppt::variant::apply(vis, std::forward<decltype(x)>(x)); });
          CK(r == t[c], sig("variant::apply:result"), "got %d want %d", r, t[c]);
          CK(p.is(1, c), sig("variant::apply:calls"), "%s", p.show().c_str());
          if (Cat < 2)
            CK(code(v) == c, sig("variant::apply:source_modified"), "lvalue source is now %s", sv(code(v)).c_str());
        }
      }
    }
  }

  static void register_shards()
  {
    std::string const base = std::string("rich/") + Fam::name + "/" + (Cat == 0 ? "const_lvalue" : Cat == 1 ? "lvalue" : "rvalue") + "/" + style_name(Style);
    if constexpr (style_ok)
    {
      vrt::shard(base + "/optional", [] { optional_cases(); });
      vrt::shard(base + "/variant", [] { variant_cases(); });
    }
    if constexpr (src_ok)
    {
      vrt::shard(base + "/combine", [] { combine_cases(); });
      vrt::shard(base + "/either", [] { either_cases(); });
    }
  }
};

template <class Fam> inline void rich_family_shards()
{
  rich_suite<Fam, 0, 0>::register_shards();
  rich_suite<Fam, 0, 1>::register_shards();
  rich_suite<Fam, 0, 2>::register_shards();
  rich_suite<Fam, 1, 0>::register_shards();
  rich_suite<Fam, 1, 1>::register_shards();
  rich_suite<Fam, 1, 2>::register_shards();
  rich_suite<Fam, 2, 0>::register_shards();
  rich_suite<Fam, 2, 1>::register_shards();
  rich_suite<Fam, 2, 2>::register_shards();
}

} // namespace c04


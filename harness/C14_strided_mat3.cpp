// C14_strided_mat3.cpp -- 3x3 matrices over non-contiguous storages: all pairs of the structured
// family (<= 2 (quick: <= 1) non-zero entries from {-1,1}, permutation, elementary, distinct).
#include "C14_strided_mat.hpp"

namespace c14
{
using namespace noncontig;

void register_strided_mat3()
{
  for (unsigned p = 0; p < 8; ++p)
    vrt::shard("noncontiguous/matrix3x3/" + std::to_string(p), [p] {
      matrix_pairs<3, 3>(concat_unique<rmat<3, 3>>({sparse_over<3, 3>(vrt::thorough() ? 2 : 1, {1, -1}), permutation_matrices<3>(),
                                                    elementary_matrices<3>(), {distinct_matrix<3, 3>(1, 1)}}),
                         p, 8);
    });
}
}

// C14_narrow_mixed_b.cpp -- narrow (op) int/long scalar types, mixed matrix*vector (see C14_narrow.hpp)
#include "C14_narrow.hpp"

namespace c14
{
using namespace narrow;

void register_narrow_mixed_b()
{
  vrt::shard("narrow/mixed/int", [] {
    type_pair_small<i16, int>();
    type_pair_small<int, i8>();
  });
  vrt::shard("narrow/mixed/long", [] {
    type_pair_small<i8, long>();
    type_pair_small<long, i16>();
  });
#ifndef C14_NO_MIXED_MATVEC
  vrt::shard("narrow/mixed/matrix_vector", [] {
    matrix_vector<i16, int, 2, 2>(vals<i16>(true), vals<int>());
    matrix_vector<int, i8, 2, 2>(vals<int>(true), vals<i8>());
    matrix_vector<i8, i16, 2, 2>(vals<i8>(true), vals<i16>());
    matrix_vector<u8, i8, 2, 2>(vals<u8>(true), vals<i8>());
    matrix_vector<i8, long, 2, 2>(vals<i8>(true), vals<long>());
    matrix_vector<i16, i8, 1, 3>(vals<i16>(), vals<i8>());
  });
#endif
}
}

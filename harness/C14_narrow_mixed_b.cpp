// C14_narrow_mixed_b.cpp -- narrow (op) int/long scalar types (see C14_narrow.hpp); mixed matrix*vector lives in C14b_narrow.cpp
#include "C14_narrow.hpp"

namespace c14
{
using namespace narrow;

void register_narrow_mixed_b()
{
  vrt::shard("narrow/mixed/int", [] {
    type_pair_small<i16, int>();
    type_pair_small<int, i8>();
    // narrow unsigned left operand, negative right components: dim<unsigned short>(5,6) - dim<int>(-3,2) = (8,4)
    componentwise<0, u16, int, 2>(vals<u16>(), vals<int>());
    componentwise<1, u16, int, 2>(vals<u16>(), vals<int>());
    componentwise<2, u16, int, 2>(vals<u16>(), vals<int>());
  });
  vrt::shard("narrow/mixed/long", [] {
    type_pair_small<i8, long>();
    type_pair_small<long, i16>();
  });
}
}

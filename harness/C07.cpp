// C07 -- raw_vector and buffer behave like std::vector for every operation history.
// Engine H: BFS over operation histories on the real objects, std::vector as the
// lock-step reference, counting allocator, ASan.
//
// Canonical state: contents of every vector, min(capacity-size, SLACK_CAP) and the
// "null storage" flag.  Justification for truncating the slack: inside the size cap
// no operation of the alphabet can tell two slacks >= SLACK_CAP apart (no insertion
// reallocates, reserve/shrink_to_fit only compare the request with the capacity and
// are offered relative to the current capacity).  The uninitialised tail between
// size and capacity is excluded: a correct implementation never reads it.
#include <hist.hpp>

#include <fcppt/container/buffer/append_from.hpp>
#include <fcppt/container/buffer/append_from_opt.hpp>
#include <fcppt/container/buffer/object.hpp>
#include <fcppt/container/buffer/read_from.hpp>
#include <fcppt/container/buffer/read_from_opt.hpp>
#include <fcppt/container/buffer/to_raw_vector.hpp>
#include <fcppt/container/dynamic_array.hpp>
#include <fcppt/container/raw_vector/comparison.hpp>
#include <fcppt/container/raw_vector/object.hpp>
#include <fcppt/io/read_chars.hpp>
#include <fcppt/io/optional_buffer.hpp>
#include <fcppt/optional/object.hpp>

#include <limits>

#include <algorithm>
#include <forward_list>
#include <iterator>
#include <map>
#include <optional>
#include <sstream>
#include <vector>

using vrt::hist::op;

// ---------------------------------------------------------------- counting allocator
struct alloc_registry
{
  std::map<void *, std::size_t> live;
  std::uint64_t allocs = 0;
  bool fail_next = false; // environment deviation: the next allocation throws std::bad_alloc
  bool injected = false;  // ... and it did
};
static alloc_registry &reg()
{
  static alloc_registry r;
  return r;
}

template <class T> struct counting_alloc
{
  using value_type = T;
  counting_alloc() = default;
  template <class U> counting_alloc(counting_alloc<U> const &) {}
  T *allocate(std::size_t n)
  {
    if (reg().fail_next)
    {
      reg().fail_next = false;
      reg().injected = true;
      throw std::bad_alloc();
    }
    void *p = ::operator new(n * sizeof(T) + (n == 0 ? 1 : 0));
    reg().live[p] = n;
    ++reg().allocs;
    return static_cast<T *>(p);
  }
  void deallocate(T *p, std::size_t n)
  {
    auto it = reg().live.find(p);
    if (it == reg().live.end())
    {
      vrt::fail("alloc:deallocate_unknown_pointer", "deallocate of a pointer that is not live (double free?)");
      return;
    }
    if (it->second != n)
      vrt::fail("alloc:deallocate_wrong_size", vrt::fmt("allocated %zu elements, deallocated with %zu", it->second, n));
    reg().live.erase(it);
    ::operator delete(p);
  }
  bool operator==(counting_alloc const &) const { return true; }
  bool operator!=(counting_alloc const &) const { return false; }
};

using rv = fcppt::container::raw_vector::object<int, counting_alloc<int>>;
using buf = fcppt::container::buffer::object<int, counting_alloc<int>>;
using ref = std::vector<int>;

static std::string show_vec(ref const &v)
{
  std::string r = "[";
  for (std::size_t i = 0; i < v.size(); ++i)
    r += (i ? "," : "") + std::to_string(v[i]);
  return r + "]";
}

// single pass input iterator over a vector
struct input_it
{
  using iterator_category = std::input_iterator_tag;
  using value_type = int;
  using difference_type = std::ptrdiff_t;
  using pointer = int const *;
  using reference = int const &;
  int const *p;
  reference operator*() const { return *p; }
  input_it &operator++()
  {
    ++p;
    return *this;
  }
  input_it operator++(int)
  {
    input_it t = *this;
    ++p;
    return t;
  }
  bool operator==(input_it const &o) const { return p == o.p; }
  bool operator!=(input_it const &o) const { return p != o.p; }
};

static ref const ranges[3] = {{}, {7}, {7, 8}};

enum kind
{
  CTOR_DEFAULT = 1,
  CTOR_COUNT,   // a=count b=value
  CTOR_INPUT,   // a=range
  CTOR_FORWARD, // a=range
  CTOR_INIT,    // a=range
  PUSH_BACK,    // b=value
  POP_BACK,
  INSERT,        // a=pos b=value
  INSERT_N,      // a=pos b=n c=value
  INSERT_INPUT,  // a=pos b=range
  INSERT_FWD,    // a=pos b=range
  INSERT_ALIAS,  // a=pos b=index of aliased element
  PUSH_ALIAS,    // b=index
  INSERT_N_ALIAS, // a=pos b=n c=index
  ERASE,         // a=pos
  ERASE_RANGE,   // a=i b=j
  RESIZE,        // a=n b=value
  RESERVE,       // a=mode
  SHRINK,
  CLEAR,
  SET,  // a=index b=value through operator[]
  SWAP, // member swap with the other vector
  SWAP_FREE,
  MOVE_CONSTRUCT, // other = rv(std::move(this))
  MOVE_ASSIGN,    // other = std::move(this)
  B_CTOR = 100,   // a=write size
  B_RESIZE_WRITE, // a=size
  B_WRITTEN,      // a=k (fills k values first)
  B_APPEND_FROM,  // a=size b=k written by the callback
  B_APPEND_OPT,   // a=size b=k or -1 for nothing
  B_MOVE_CONSTRUCT,
  B_MOVE_ASSIGN, // to a fresh buffer(1)
  B_SWAP,        // with second buffer
  B_TO_RAW,      // convert into the raw_vector slot (buffer becomes released)
  B_READ_FROM,   // a=size b=k: read_from<buf>
  ARM_ALLOC_FAILURE = 200, // environment deviation (at most one per history): the next allocation throws
};

static int SIZE_CAP = 4;
static int NVEC = 1;

struct vec_sys
{
  // t = op.d selects the vector
  std::optional<rv> x[2];
  ref m[2];
  int next_val = 0;
  int fault = 0; // 0 none yet, 1 armed, 2 used

  vec_sys()
  {
    reg().live.clear();
    reg().fail_next = false;
    reg().injected = false;
    for (int i = 0; i < NVEC; ++i)
      x[i].emplace();
  }
  ~vec_sys()
  {
    for (auto &o : x)
      o.reset();
    if (!reg().live.empty())
      vrt::fail("alloc:leak", vrt::fmt("%zu allocation(s) still live after all vectors were destroyed", reg().live.size()));
    for (auto &kv : reg().live)
      ::operator delete(kv.first);
    reg().live.clear();
  }

  static int slack_cap() { return SIZE_CAP + 1; }

  std::vector<op> enabled() const
  {
    std::vector<op> r;
    if (fault == 0)
      r.push_back(op{ARM_ALLOC_FAILURE, 0, 0, 0, 0});
    for (int t = 0; t < NVEC; ++t)
    {
      int const n = static_cast<int>(m[t].size());
      auto add = [&](int k, int a = 0, int b = 0, int c = 0) { r.push_back(op{k, a, b, c, t}); };
      add(CTOR_DEFAULT);
      for (int cnt = 0; cnt <= 2; ++cnt)
        add(CTOR_COUNT, cnt, 1);
      for (int rg = 0; rg < 3; ++rg)
      {
        add(CTOR_INPUT, rg);
        add(CTOR_FORWARD, rg);
        add(CTOR_INIT, rg);
      }
      if (n < SIZE_CAP)
      {
        for (int v = 1; v <= 3; ++v)
          add(PUSH_BACK, 0, v);
        for (int p = 0; p <= n; ++p)
          for (int v = 1; v <= 2; ++v)
            add(INSERT, p, v);
        for (int i = 0; i < n; ++i)
        {
          add(PUSH_ALIAS, 0, i);
          for (int p = 0; p <= n; ++p)
            add(INSERT_ALIAS, p, i);
        }
      }
      for (int p = 0; p <= n; ++p)
      {
        for (int k = 0; k <= 2 && n + k <= SIZE_CAP; ++k)
        {
          add(INSERT_N, p, k, 3);
          if (k > 0)
            for (int i = 0; i < n; ++i)
              add(INSERT_N_ALIAS, p, k, i);
        }
        for (int rg = 0; rg < 3; ++rg)
          if (n + static_cast<int>(ranges[rg].size()) <= SIZE_CAP)
          {
            add(INSERT_INPUT, p, rg);
            add(INSERT_FWD, p, rg);
          }
      }
      if (n > 0)
        add(POP_BACK);
      for (int p = 0; p < n; ++p)
        add(ERASE, p);
      for (int i = 0; i <= n; ++i)
        for (int j = i; j <= n; ++j)
          add(ERASE_RANGE, i, j);
      for (int k = 0; k <= SIZE_CAP; ++k)
        add(RESIZE, k, 2);
      for (int mode = 0; mode < 5; ++mode)
        add(RESERVE, mode);
      add(SHRINK);
      add(CLEAR);
      for (int i = 0; i < n; ++i)
        add(SET, i, 3);
      if (NVEC == 2)
      {
        if (t == 0)
        {
          add(SWAP);
          add(SWAP_FREE);
        }
        add(MOVE_CONSTRUCT);
        add(MOVE_ASSIGN);
      }
    }
    return r;
  }

  static std::string show(op const &o)
  {
    char const *names[] = {"?", "ctor()", "ctor(count,val)", "ctor(input-range)", "ctor(forward-range)", "ctor(init-list)",
                           "push_back", "pop_back", "insert(pos,val)", "insert(pos,n,val)", "insert(pos,input-range)",
                           "insert(pos,forward-range)", "insert(pos,self[i])", "push_back(self[i])", "insert(pos,n,self[i])",
                           "erase(pos)", "erase(i,j)", "resize(n,val)", "reserve(mode)", "shrink_to_fit", "clear", "self[i]=val",
                           "swap(other)", "swap(a,b)", "other=object(move(self))", "other=move(self)"};
    if (o.k == ARM_ALLOC_FAILURE)
      return "next allocation throws";
    std::string n = (o.k >= 1 && o.k <= MOVE_ASSIGN) ? names[o.k] : "?";
    return std::string(o.d == 0 ? "X." : "Y.") + n + "<" + std::to_string(o.a) + "," + std::to_string(o.b) + "," +
           std::to_string(o.c) + ">";
  }

  // An injected allocation failure must surface as std::bad_alloc and leave every vector valid
  // (destructible, size <= capacity, storage = one live block); the model adopts what the
  // implementation left (basic guarantee), the registry checks catch double frees and leaks.
  void apply(op const &o)
  {
    if (o.k == ARM_ALLOC_FAILURE)
    {
      fault = 1;
      reg().fail_next = true;
      return;
    }
    reg().fail_next = fault == 1;
    try
    {
      apply_inner(o);
    }
    catch (std::bad_alloc const &)
    {
      VRT_CHECK(reg().injected, "raw_vector:bad_alloc_without_failure", "std::bad_alloc although no allocation failure was injected");
      for (int t = 0; t < NVEC; ++t)
      {
        if (!x[t])
          x[t].emplace();
        rv &v = *x[t];
        if (v.size() <= v.capacity() && v.size() <= 64)
          m[t].assign(v.begin(), v.end());
        else
          vrt::fail("raw_vector:invalid_after_bad_alloc", "size > capacity after an allocation failure");
      }
    }
    if (reg().injected)
      fault = 2;
    reg().fail_next = false;
  }

  void apply_inner(op const &o)
  {
    int const t = o.d, u = 1 - o.d;
    rv &v = *x[t];
    ref &r = m[t];
    auto pos = [&](int p) { return v.begin() + p; };
    auto sig = [&](char const *s) { return std::string("raw_vector:") + s; };
    switch (o.k)
    {
    case CTOR_DEFAULT:
      x[t].reset();
      x[t].emplace();
      r = ref();
      break;
    case CTOR_COUNT:
      x[t].reset();
      x[t].emplace(static_cast<rv::size_type>(o.a), o.b);
      r = ref(static_cast<std::size_t>(o.a), o.b);
      break;
    case CTOR_INPUT:
    {
      ref const &src = ranges[o.a];
      x[t].reset();
      x[t].emplace(input_it{src.data()}, input_it{src.data() + src.size()});
      r = src;
      break;
    }
    case CTOR_FORWARD:
    {
      std::forward_list<int> src(ranges[o.a].begin(), ranges[o.a].end());
      x[t].reset();
      x[t].emplace(src.begin(), src.end());
      r = ranges[o.a];
      break;
    }
    case CTOR_INIT:
      x[t].reset();
      if (o.a == 0)
        x[t].emplace(std::initializer_list<int>{});
      else if (o.a == 1)
        x[t].emplace(std::initializer_list<int>{7});
      else
        x[t].emplace(std::initializer_list<int>{7, 8});
      r = ranges[o.a];
      break;
    case PUSH_BACK:
      v.push_back(o.b);
      r.push_back(o.b);
      break;
    case POP_BACK:
      v.pop_back();
      r.pop_back();
      break;
    case INSERT:
    {
      auto it = v.insert(pos(o.a), o.b);
      auto rit = r.insert(r.begin() + o.a, o.b);
      VRT_CHECK(it - v.begin() == rit - r.begin(), sig("insert:iterator"), "returned offset %td, std::vector %td",
                it - v.begin(), rit - r.begin());
      break;
    }
    case INSERT_N:
      v.insert(pos(o.a), static_cast<rv::size_type>(o.b), o.c);
      r.insert(r.begin() + o.a, static_cast<std::size_t>(o.b), o.c);
      break;
    case INSERT_INPUT:
    {
      ref const &src = ranges[o.b];
      v.insert(pos(o.a), input_it{src.data()}, input_it{src.data() + src.size()});
      r.insert(r.begin() + o.a, src.begin(), src.end());
      break;
    }
    case INSERT_FWD:
    {
      std::forward_list<int> src(ranges[o.b].begin(), ranges[o.b].end());
      v.insert(pos(o.a), src.begin(), src.end());
      r.insert(r.begin() + o.a, ranges[o.b].begin(), ranges[o.b].end());
      break;
    }
    case INSERT_ALIAS:
    {
      auto it = v.insert(pos(o.a), v[static_cast<rv::size_type>(o.b)]);
      auto rit = r.insert(r.begin() + o.a, r[static_cast<std::size_t>(o.b)]);
      VRT_CHECK(it - v.begin() == rit - r.begin(), sig("insert_alias:iterator"), "returned offset %td, std::vector %td",
                it - v.begin(), rit - r.begin());
      break;
    }
    case PUSH_ALIAS:
      v.push_back(v[static_cast<rv::size_type>(o.b)]);
      r.push_back(r[static_cast<std::size_t>(o.b)]);
      break;
    case INSERT_N_ALIAS:
      v.insert(pos(o.a), static_cast<rv::size_type>(o.b), v[static_cast<rv::size_type>(o.c)]);
      r.insert(r.begin() + o.a, static_cast<std::size_t>(o.b), r[static_cast<std::size_t>(o.c)]);
      break;
    case ERASE:
    {
      auto it = v.erase(pos(o.a));
      auto rit = r.erase(r.begin() + o.a);
      VRT_CHECK(it - v.begin() == rit - r.begin(), sig("erase:iterator"), "returned offset %td, std::vector %td",
                it - v.begin(), rit - r.begin());
      break;
    }
    case ERASE_RANGE:
    {
      auto it = v.erase(pos(o.a), pos(o.b));
      auto rit = r.erase(r.begin() + o.a, r.begin() + o.b);
      VRT_CHECK(it - v.begin() == rit - r.begin(), sig("erase_range:iterator"), "returned offset %td, std::vector %td",
                it - v.begin(), rit - r.begin());
      break;
    }
    case RESIZE:
      v.resize(static_cast<rv::size_type>(o.a), o.b);
      r.resize(static_cast<std::size_t>(o.a), o.b);
      break;
    case RESERVE:
    {
      rv::size_type const cap = v.capacity();
      rv::size_type const req = o.a == 0 ? 0 : o.a == 1 ? v.size() : o.a == 2 ? cap : o.a == 3 ? cap + 1
                                                                                                : v.size() + static_cast<rv::size_type>(SIZE_CAP) + 1;
      v.reserve(req);
      VRT_CHECK(v.capacity() >= req, sig("reserve:capacity"), "capacity %zu after reserve(%zu)", v.capacity(), req);
      r.reserve(req);
      break;
    }
    case SHRINK:
      v.shrink_to_fit();
      break;
    case CLEAR:
      v.clear();
      r.clear();
      break;
    case SET:
    {
      int &e = v[static_cast<rv::size_type>(o.a)];
      VRT_CHECK(&e == v.data() + o.a, sig("index:reference"), "operator[] returned a reference to another element");
      e = o.b;
      r[static_cast<std::size_t>(o.a)] = o.b;
      break;
    }
    case SWAP:
      v.swap(*x[u]);
      r.swap(m[u]);
      break;
    case SWAP_FREE:
      swap(v, *x[u]);
      r.swap(m[u]);
      break;
    case MOVE_CONSTRUCT:
    {
      x[u].reset();
      x[u].emplace(std::move(v));
      m[u] = std::move(r);
      // the source of a move is valid but unspecified (today: empty): adopt what the implementation left there, the
      // invariants (size <= capacity, storage accounting, contents) are checked on it like on any other vector
      VRT_CHECK(v.size() <= v.capacity(), sig("move_construct:source_invalid"), "size %zu > capacity %zu", v.size(), v.capacity());
      if (!v.empty())
        vrt::count("info:raw_vector:moved_from_not_empty");
      r.assign(v.begin(), v.end());
      break;
    }
    case MOVE_ASSIGN:
    {
      *x[u] = std::move(v);
      m[u] = r;
      // the source of a move assignment is valid but unspecified: adopt what the implementation left there
      VRT_CHECK(v.size() <= v.capacity(), sig("move_assign:source_invalid"), "size %zu > capacity %zu", v.size(), v.capacity());
      r.assign(v.begin(), v.end());
      break;
    }
    default:
      vrt::fail("harness:bad_op", "unknown op");
    }
  }

  void check()
  {
    for (int t = 0; t < NVEC; ++t)
    {
      rv &v = *x[t];
      rv const &cv = v;
      ref const &r = m[t];
      char const *who = t == 0 ? "X" : "Y";
      VRT_CHECK(v.size() == r.size(), "raw_vector:size", "%s size %zu, std::vector %zu", who, v.size(), r.size());
      VRT_CHECK(v.capacity() >= v.size(), "raw_vector:capacity_below_size", "%s capacity %zu < size %zu", who, v.capacity(), v.size());
      VRT_CHECK(v.empty() == r.empty(), "raw_vector:empty", "%s empty() disagrees", who);
      if (v.size() == r.size())
      {
        ref got(v.begin(), v.end());
        VRT_CHECK(got == r, "raw_vector:contents", "%s contents %s, std::vector %s", who, show_vec(got).c_str(), show_vec(r).c_str());
        ref gotc(cv.begin(), cv.end());
        VRT_CHECK(gotc == r, "raw_vector:contents_const", "%s const iteration differs", who);
      }
      VRT_CHECK(v.data() + v.size() == v.data_end() && v.begin() == v.data() && v.end() == v.data_end(), "raw_vector:pointers",
                "%s data/data_end/begin/end inconsistent", who);
      if (!r.empty() && v.size() == r.size())
      {
        VRT_CHECK(&v.front() == v.data() && &v.back() == v.data() + (v.size() - 1) && cv.front() == r.front() && cv.back() == r.back(),
                  "raw_vector:front_back", "%s front/back wrong", who);
      }
      // the storage is exactly one live block of `capacity` elements (or none)
      if (v.data() != nullptr)
      {
        auto it = reg().live.find(v.data());
        VRT_CHECK(it != reg().live.end() && it->second == v.capacity(), "raw_vector:storage_block",
                  "%s storage is not a live block of capacity() elements", who);
      }
      else
        VRT_CHECK(v.capacity() == 0, "raw_vector:null_with_capacity", "%s null storage with capacity", who);
    }
    VRT_CHECK(reg().live.size() <= static_cast<std::size_t>(NVEC), "alloc:extra_blocks", "%zu live blocks for %d vectors",
              reg().live.size(), NVEC);
    if (NVEC == 2)
    {
      rv const &a = *x[0], &b = *x[1];
      VRT_CHECK((a == b) == (m[0] == m[1]) && (a != b) == (m[0] != m[1]) && (a < b) == (m[0] < m[1]) &&
                    (a > b) == (m[0] > m[1]) && (a <= b) == (m[0] <= m[1]) && (a >= b) == (m[0] >= m[1]),
                "raw_vector:comparison", "comparison operators disagree with std::vector");
    }
  }

  std::string canon() const
  {
    std::string r;
    for (int t = 0; t < NVEC; ++t)
    {
      rv const &v = *x[t];
      r += show_vec(m[t]);
      std::size_t slack = v.capacity() >= v.size() ? v.capacity() - v.size() : 999;
      r += "/" + std::to_string(std::min<std::size_t>(slack, static_cast<std::size_t>(slack_cap())));
      r += v.data() == nullptr ? "n" : "p";
      r += ";";
    }
    r += "f" + std::to_string(fault);
    return r;
  }
};

// ---------------------------------------------------------------- buffer
static int BUF_CAP = 4; // cap on read_size and on requested write sizes

struct buf_sys
{
  std::optional<buf> b[2];
  // model: read area contents, write area size
  ref rd[2];
  std::size_t ws[2] = {0, 0};
  bool released[2] = {false, false};
  std::optional<rv> out; // result of the last to_raw_vector
  ref mout;
  bool has_out = false;
  int counter = 0; // values written are 10,11,12,... so that every element is distinguishable
  int fault = 0;   // 0 none yet, 1 armed, 2 used

  buf_sys()
  {
    reg().live.clear();
    reg().fail_next = false;
    reg().injected = false;
    b[0].emplace(0U);
    b[1].emplace(1U);
    ws[1] = 1;
  }
  ~buf_sys()
  {
    b[0].reset();
    b[1].reset();
    out.reset();
    if (!reg().live.empty())
      vrt::fail("alloc:leak", vrt::fmt("%zu allocation(s) still live after all buffers were destroyed", reg().live.size()));
    for (auto &kv : reg().live)
      ::operator delete(kv.first);
    reg().live.clear();
  }

  std::vector<op> enabled() const
  {
    std::vector<op> r;
    if (fault == 0)
      r.push_back(op{ARM_ALLOC_FAILURE, 0, 0, 0, 0});
    for (int t = 0; t < 2; ++t)
    {
      auto add = [&](int k, int a = 0, int bb = 0) { r.push_back(op{k, a, bb, 0, t}); };
      int const rs = static_cast<int>(rd[t].size());
      for (int s = 0; s <= 2; ++s)
        add(B_CTOR, s);
      for (int s = 0; s <= BUF_CAP - rs + 1 && s <= BUF_CAP; ++s)
        add(B_RESIZE_WRITE, s);
      for (int k = 0; k <= static_cast<int>(ws[t]) && rs + k <= BUF_CAP; ++k)
        add(B_WRITTEN, k);
      for (int s = 0; s <= BUF_CAP; ++s)
        for (int k = 0; k <= s && rs + k <= BUF_CAP; ++k)
        {
          add(B_APPEND_FROM, s, k);
          add(B_APPEND_OPT, s, k);
        }
      for (int s = 0; s <= 2; ++s)
        add(B_APPEND_OPT, s, -1);
      add(B_MOVE_CONSTRUCT);
      add(B_MOVE_ASSIGN);
      if (t == 0)
        add(B_SWAP);
      add(B_TO_RAW);
      for (int s = 0; s <= 2; ++s)
        for (int k = 0; k <= s; ++k)
          add(B_READ_FROM, s, k);
    }
    return r;
  }

  static std::string show(op const &o)
  {
    char const *n = "?";
    switch (o.k)
    {
    case B_CTOR: n = "ctor(write_size)"; break;
    case B_RESIZE_WRITE: n = "resize_write_area"; break;
    case B_WRITTEN: n = "fill+written"; break;
    case B_APPEND_FROM: n = "append_from(size,k)"; break;
    case B_APPEND_OPT: n = "append_from_opt(size,k|-1)"; break;
    case B_MOVE_CONSTRUCT: n = "other=object(move(self))"; break;
    case B_MOVE_ASSIGN: n = "other=move(self)"; break;
    case B_SWAP: n = "swap(other)"; break;
    case B_TO_RAW: n = "to_raw_vector"; break;
    case B_READ_FROM: n = "self=read_from(size,k)"; break;
    case ARM_ALLOC_FAILURE: return "next allocation throws";
    }
    return std::string(o.d == 0 ? "A." : "B.") + n + "<" + std::to_string(o.a) + "," + std::to_string(o.b) + ">";
  }

  void apply(op const &o)
  {
    if (o.k == ARM_ALLOC_FAILURE)
    {
      fault = 1;
      return;
    }
    reg().fail_next = fault == 1;
    try
    {
      apply_inner(o);
    }
    catch (std::bad_alloc const &)
    {
      VRT_CHECK(reg().injected, "buffer:bad_alloc_without_failure", "std::bad_alloc although no allocation failure was injected");
      reg().fail_next = false;
      for (int t = 0; t < 2; ++t)
      {
        if (!b[t])
        {
          b[t].emplace(0U);
          rd[t].clear();
          ws[t] = 0;
          continue;
        }
        // basic guarantee: whatever is left must be a valid buffer; adopt it (check() verifies the storage)
        buf &x = *b[t];
        if (x.read_size() <= 64 && x.write_size() <= 64)
        {
          bool live = x.read_data() == nullptr || reg().live.count(const_cast<int *>(x.read_data())) != 0;
          if (live)
            rd[t].assign(x.begin(), x.end());
          else
            rd[t].assign(x.read_size(), 0);
          ws[t] = x.write_size();
        }
        else
          vrt::fail("buffer:invalid_after_bad_alloc", "implausible sizes after an allocation failure");
      }
    }
    if (reg().injected)
      fault = 2;
    reg().fail_next = false;
  }

  void apply_inner(op const &o)
  {
    int const t = o.d, u = 1 - o.d;
    buf &x = *b[t];
    switch (o.k)
    {
    case B_CTOR:
      b[t].reset();
      b[t].emplace(static_cast<buf::size_type>(o.a));
      rd[t].clear();
      ws[t] = static_cast<std::size_t>(o.a);
      break;
    case B_RESIZE_WRITE:
      x.resize_write_area(static_cast<buf::size_type>(o.a));
      ws[t] = static_cast<std::size_t>(o.a);
      break;
    case B_WRITTEN:
    {
      int *w = x.write_data();
      for (int i = 0; i < o.a; ++i)
      {
        w[i] = 10 + counter;
        rd[t].push_back(10 + counter);
        ++counter;
      }
      x.written(static_cast<buf::size_type>(o.a));
      ws[t] -= static_cast<std::size_t>(o.a);
      break;
    }
    case B_APPEND_FROM:
    case B_READ_FROM:
    {
      int const k = o.b;
      int const size = o.a;
      auto fn = [&](int *p, buf::size_type sz) -> buf::size_type {
        VRT_CHECK(static_cast<int>(sz) == size, "buffer:append_from:size_arg", "callback got size %zu, requested %d", sz, size);
        for (int i = 0; i < k; ++i)
          p[i] = 10 + counter + i;
        return static_cast<buf::size_type>(k);
      };
      if (o.k == B_APPEND_FROM)
      {
        buf res = fcppt::container::buffer::append_from(std::move(x), static_cast<buf::size_type>(size), fn);
        b[t].reset();
        b[t].emplace(std::move(res));
      }
      else
      {
        buf res = fcppt::container::buffer::read_from<buf>(static_cast<buf::size_type>(size), fn);
        b[t].reset();
        b[t].emplace(std::move(res));
        rd[t].clear();
      }
      for (int i = 0; i < k; ++i)
        rd[t].push_back(10 + counter + i);
      counter += k;
      ws[t] = static_cast<std::size_t>(size - k);
      break;
    }
    case B_APPEND_OPT:
    {
      int const k = o.b, size = o.a;
      auto fn = [&](int *p, buf::size_type) -> fcppt::optional::object<buf::size_type> {
        if (k < 0)
          return fcppt::optional::object<buf::size_type>();
        for (int i = 0; i < k; ++i)
          p[i] = 10 + counter + i;
        return fcppt::optional::object<buf::size_type>(static_cast<buf::size_type>(k));
      };
      fcppt::optional::object<buf> res = fcppt::container::buffer::append_from_opt(std::move(x), static_cast<buf::size_type>(size), fn);
      VRT_CHECK(res.has_value() == (k >= 0), "buffer:append_from_opt:presence", "result presence wrong");
      if (res.has_value())
      {
        b[t].reset();
        b[t].emplace(std::move(res.get_unsafe()));
        for (int i = 0; i < k; ++i)
          rd[t].push_back(10 + counter + i);
        counter += k;
        ws[t] = static_cast<std::size_t>(size - k);
      }
      else
        ws[t] = static_cast<std::size_t>(size); // buffer was not consumed, write area resized
      break;
    }
    case B_MOVE_CONSTRUCT:
      b[u].reset();
      b[u].emplace(std::move(x));
      rd[u] = rd[t];
      ws[u] = ws[t];
      // the moved-from buffer is valid but unspecified (today: empty): adopt what the implementation left there
      if (x.read_size() != 0 || x.write_size() != 0)
        vrt::count("info:buffer:moved_from_not_empty");
      rd[t].assign(x.begin(), x.end());
      ws[t] = x.write_size();
      break;
    case B_MOVE_ASSIGN:
      *b[u] = std::move(x);
      std::swap(rd[u], rd[t]); // implemented as swap; the source is valid but unspecified: adopt
      std::swap(ws[u], ws[t]);
      rd[t].assign(x.begin(), x.end());
      ws[t] = x.write_size();
      break;
    case B_SWAP:
      x.swap(*b[u]);
      std::swap(rd[u], rd[t]);
      std::swap(ws[u], ws[t]);
      break;
    case B_TO_RAW:
    {
      out.reset();
      out.emplace(fcppt::container::buffer::to_raw_vector(std::move(x)));
      mout = rd[t];
      has_out = true;
      rd[t].clear();
      ws[t] = 0;
      break;
    }
    default:
      vrt::fail("harness:bad_op", "unknown op");
    }
  }

  void check()
  {
    std::size_t blocks = 0;
    for (int t = 0; t < 2; ++t)
    {
      buf &x = *b[t];
      char const *who = t == 0 ? "A" : "B";
      VRT_CHECK(x.read_size() == rd[t].size(), "buffer:read_size", "%s read_size %zu, model %zu", who, x.read_size(), rd[t].size());
      VRT_CHECK(x.write_size() == ws[t], "buffer:write_size", "%s write_size %zu, model %zu", who, x.write_size(), ws[t]);
      if (x.read_size() == rd[t].size())
      {
        ref got(x.begin(), x.end());
        VRT_CHECK(got == rd[t], "buffer:read_area", "%s read area %s, model %s", who, show_vec(got).c_str(), show_vec(rd[t]).c_str());
        for (std::size_t i = 0; i < got.size(); ++i)
          VRT_CHECK(x[i] == rd[t][i], "buffer:index", "%s operator[] wrong", who);
      }
      VRT_CHECK(x.read_data_end() == x.write_data() && x.write_data() + x.write_size() == x.write_data_end() &&
                    x.read_data() + x.read_size() == x.read_data_end(),
                "buffer:pointers", "%s areas are not contiguous", who);
      if (x.read_data() != nullptr)
      {
        ++blocks;
        auto it = reg().live.find(const_cast<int *>(x.read_data()));
        VRT_CHECK(it != reg().live.end() && it->second >= x.read_size() + x.write_size(), "buffer:storage_block",
                  "%s storage is not a live block large enough for read+write area", who);
        // the write area must be writable (ASan checks the block bounds)
        int *w = x.write_data();
        for (std::size_t i = 0; i < x.write_size(); ++i)
          w[i] = -1;
      }
    }
    if (has_out)
    {
      rv &v = *out;
      ref got(v.begin(), v.end());
      VRT_CHECK(got == mout, "buffer:to_raw_vector:contents", "raw_vector %s, read area was %s", show_vec(got).c_str(), show_vec(mout).c_str());
      VRT_CHECK(v.capacity() >= v.size(), "buffer:to_raw_vector:capacity", "capacity below size");
      if (v.data() != nullptr)
      {
        ++blocks;
        auto it = reg().live.find(v.data());
        VRT_CHECK(it != reg().live.end() && it->second == v.capacity(), "buffer:to_raw_vector:storage_block",
                  "raw_vector storage is not a live block of capacity() elements");
        // the vector must be usable: grow it by one
      }
    }
    VRT_CHECK(reg().live.size() == blocks, "alloc:extra_blocks", "%zu live blocks, %zu owned", reg().live.size(), blocks);
  }

  std::string canon() const
  {
    // read contents matter only through their count and relative identity: renumber
    std::string r;
    std::map<int, int> ren;
    auto rn = [&](int v) {
      auto it = ren.find(v);
      if (it == ren.end())
        it = ren.emplace(v, static_cast<int>(ren.size())).first;
      return it->second;
    };
    for (int t = 0; t < 2; ++t)
    {
      buf const &x = *b[t];
      r += "[";
      for (int v : rd[t])
        r += std::to_string(rn(v)) + ",";
      r += "]w" + std::to_string(ws[t]);
      std::size_t total = 0;
      if (x.read_data() != nullptr)
      {
        auto it = reg().live.find(const_cast<int *>(x.read_data()));
        total = it == reg().live.end() ? 0 : it->second;
      }
      std::size_t used = rd[t].size() + ws[t];
      r += "s" + std::to_string(std::min<std::size_t>(total >= used ? total - used : 99, static_cast<std::size_t>(BUF_CAP) + 4));
      r += x.read_data() == nullptr ? "n;" : "p;";
    }
    r += has_out ? "out[" : "noout[";
    if (has_out)
    {
      for (int v : mout)
        r += std::to_string(rn(v)) + ",";
      r += "]c" + std::to_string(std::min<std::size_t>(out->capacity() - out->size(), static_cast<std::size_t>(BUF_CAP) + 4));
    }
    r += "f" + std::to_string(fault);
    return r;
  }
};

// ---------------------------------------------------------------- growth lattice (engine E)
// The growth policy is a function of (capacity, requested size) only; the BFS above sees it for sizes
// up to the cap.  Here every pair of a boundary lattice of capacities and requests up to 8193 elements
// is tried through every bulk-growing entry point.
static std::vector<std::size_t> size_lattice()
{
  std::vector<std::size_t> l{0, 1, 2, 3, 4, 5, 6, 7, 9, 12, 100, 1000, 1536, 3000, 6000};
  for (std::size_t p = 8; p <= 8192; p *= 2)
  {
    l.push_back(p - 1);
    l.push_back(p);
    l.push_back(p + 1);
  }
  std::sort(l.begin(), l.end());
  l.erase(std::unique(l.begin(), l.end()), l.end());
  return l;
}

static void check_vec(rv &v, ref const &want, char const *what, std::size_t min_cap)
{
  VRT_CHECK(v.size() == want.size(), std::string("raw_vector_growth:size:") + what, "size %zu, expected %zu", v.size(), want.size());
  VRT_CHECK(v.capacity() >= v.size() && v.capacity() >= min_cap, std::string("raw_vector_growth:capacity:") + what,
            "capacity %zu, size %zu, requested %zu", v.capacity(), v.size(), min_cap);
  if (v.data() != nullptr)
  {
    auto it = reg().live.find(v.data());
    VRT_CHECK(it != reg().live.end() && it->second == v.capacity(), std::string("raw_vector_growth:storage_block:") + what,
              "storage is not a live block of capacity() elements");
  }
  if (v.size() == want.size() && v.size() <= v.capacity())
    VRT_CHECK(ref(v.begin(), v.end()) == want, std::string("raw_vector_growth:contents:") + what, "contents differ from std::vector");
}

static void raw_vector_growth()
{
  std::vector<std::size_t> const lat = size_lattice();
  for (std::size_t c : lat)
    for (std::size_t fill : {std::size_t(0), c / 2, c})
      for (std::size_t r : lat)
      {
        if (r <= c)
          continue;
        for (int entry = 0; entry < 5; ++entry)
        {
          if (!vrt::begin("raw_vector_growth", c, fill, r, entry))
            continue;
          vrt::nontrivial(r > 2 * c || c >= 1024);
          vrt::maybe_sample();
          reg().live.clear();
          reg().fail_next = false;
          {
            rv v;
            ref m;
            v.reserve(c);
            for (std::size_t i = 0; i < fill; ++i)
            {
              v.push_back(static_cast<int>(i % 251));
              m.push_back(static_cast<int>(i % 251));
            }
            std::size_t const grow = r - fill;
            std::size_t const at = fill / 2;
            switch (entry)
            {
            case 0:
              v.reserve(r);
              check_vec(v, m, "reserve", r);
              break;
            case 1:
              v.insert(v.begin() + static_cast<std::ptrdiff_t>(at), grow, 7);
              m.insert(m.begin() + static_cast<std::ptrdiff_t>(at), grow, 7);
              check_vec(v, m, "insert_n", r);
              break;
            case 2:
            {
              ref src(grow, 9);
              v.insert(v.begin() + static_cast<std::ptrdiff_t>(at), src.begin(), src.end());
              m.insert(m.begin() + static_cast<std::ptrdiff_t>(at), src.begin(), src.end());
              check_vec(v, m, "insert_forward_range", r);
              break;
            }
            case 3:
              v.resize(r, 5);
              m.resize(r, 5);
              check_vec(v, m, "resize", r);
              break;
            case 4:
            {
              ref src(grow, 3);
              v.insert(v.begin() + static_cast<std::ptrdiff_t>(at), input_it{src.data()}, input_it{src.data() + src.size()});
              m.insert(m.begin() + static_cast<std::ptrdiff_t>(at), src.begin(), src.end());
              check_vec(v, m, "insert_input_range", r);
              break;
            }
            }
            // the vector must stay usable: one more element, then shrink
            v.push_back(1);
            m.push_back(1);
            check_vec(v, m, "push_back_after", m.size());
          }
          VRT_CHECK(reg().live.empty(), "raw_vector_growth:leak", "%zu block(s) live after destruction", reg().live.size());
        }
      }
}

static void buffer_growth()
{
  std::vector<std::size_t> const lat = size_lattice();
  for (std::size_t c : lat)
    for (std::size_t fill : {std::size_t(0), c / 2, c})
      for (std::size_t r : lat)
      {
        if (!vrt::begin("buffer_growth", c, fill, r))
          continue;
        vrt::nontrivial(fill + r > c);
        vrt::maybe_sample();
        reg().live.clear();
        reg().fail_next = false;
        {
          buf b(c);
          ref m;
          int *w = b.write_data();
          for (std::size_t i = 0; i < fill; ++i)
          {
            w[i] = static_cast<int>(i % 251);
            m.push_back(static_cast<int>(i % 251));
          }
          b.written(fill);
          b.resize_write_area(r);
          VRT_CHECK(b.write_size() == r && b.read_size() == fill, "buffer_growth:sizes", "read %zu write %zu after resize_write_area(%zu) with %zu read",
                    b.read_size(), b.write_size(), r, fill);
          auto it = reg().live.find(const_cast<int *>(b.read_data()));
          VRT_CHECK(b.read_data() == nullptr ? (fill + r == 0) : (it != reg().live.end() && it->second >= fill + r), "buffer_growth:storage_block",
                    "allocation smaller than read area + write area");
          int *w2 = b.write_data();
          for (std::size_t i = 0; i < r; ++i) // the whole write area must be writable (ASan checks the block)
            w2[i] = 77;
          VRT_CHECK(ref(b.begin(), b.end()) == m, "buffer_growth:read_area", "read area changed by resize_write_area");
          b.written(r);
          for (std::size_t i = 0; i < r; ++i)
            m.push_back(77);
          rv v = fcppt::container::buffer::to_raw_vector(std::move(b));
          check_vec(v, m, "to_raw_vector", m.size());
          v.push_back(1);
          m.push_back(1);
          check_vec(v, m, "push_back_after_to_raw_vector", m.size());
        }
        VRT_CHECK(reg().live.empty(), "buffer_growth:leak", "%zu block(s) live after destruction", reg().live.size());
      }
}

// ---------------------------------------------------------------- comparison over element types
// ==, !=, <, <=, >, >= of raw_vector<T> for every pair of vectors of length 0..3 over a boundary alphabet of T
// (type limits, -1/0/1; for floating point also -0.0, NaN and the infinities): the operators are defined
// element-wise through T's own == and < (std::equal / std::lexicographical_compare on plain std::vectors).
template <class T> static void comparison_family(char const *tn, std::vector<T> const &alphabet)
{
  using rvt = fcppt::container::raw_vector::object<T>;
  std::vector<std::vector<T>> all{{}};
  for (std::size_t len = 1; len <= 3; ++len)
  {
    std::size_t total = 1;
    for (std::size_t i = 0; i < len; ++i)
      total *= alphabet.size();
    for (std::size_t a = 0; a < total; ++a)
    {
      std::vector<T> v;
      std::size_t x = a;
      for (std::size_t i = 0; i < len; ++i)
      {
        v.push_back(alphabet[x % alphabet.size()]);
        x /= alphabet.size();
      }
      all.push_back(v);
    }
  }
  std::string const fn = std::string("raw_vector_comparison<") + tn + ">";
  auto show = [](std::vector<T> const &v) {
    std::string o = "[";
    for (T const &e : v)
      o += std::to_string(static_cast<long double>(e)) + " ";
    return o + "]";
  };
  for (auto const &ma : all)
  {
    rvt const a(ma.begin(), ma.end());
    for (auto const &mb : all)
    {
      if (!vrt::begin_text(fn.c_str(), fn + " " + show(ma) + " vs " + show(mb)))
        continue;
      rvt const b(mb.begin(), mb.end());
      vrt::nontrivial(!ma.empty() && !mb.empty());
      vrt::maybe_sample();
      // reference: == is element-wise ==, < is the lexicographical comparison through the elements' <, and the other four
      // are derived from these two the classical way (a > b is b < a, a <= b is !(b < a), a >= b is !(a < b)).  For totally
      // ordered elements that is what std::vector gives too; with NaN elements C++20's std::vector derives <=, >, >= from
      // <=> instead (unordered => false), which the documentation of raw_vector does not promise, so it is not demanded.
      bool const eq = ma.size() == mb.size() && std::equal(ma.begin(), ma.end(), mb.begin());
      bool const lt = std::lexicographical_compare(ma.begin(), ma.end(), mb.begin(), mb.end());
      bool const gt = std::lexicographical_compare(mb.begin(), mb.end(), ma.begin(), ma.end());
      VRT_CHECK((a == b) == eq && (a != b) == !eq, fn + ":equality", "== gives %d, element-wise %d", int(a == b), int(eq));
      VRT_CHECK((a < b) == lt && (a > b) == gt && (a <= b) == !gt && (a >= b) == !lt, fn + ":order",
                "< gives %d, lexicographical %d; > gives %d, lexicographical %d; <= %d, >= %d", int(a < b), int(lt), int(a > b), int(gt), int(a <= b), int(a >= b));
    }
  }
}
template <class T> static std::vector<T> int_alphabet()
{
  using L = std::numeric_limits<T>;
  std::vector<T> r{L::min(), static_cast<T>(0), static_cast<T>(1), L::max(), static_cast<T>(L::max() / 2 + 1)};
  if (L::is_signed)
    r.push_back(static_cast<T>(-1));
  return r;
}
template <class T> static std::vector<T> float_alphabet()
{
  using L = std::numeric_limits<T>;
  return {T(0), -T(0), T(1), -T(1), L::quiet_NaN(), L::infinity(), -L::infinity()};
}
static void raw_vector_comparison_types()
{
  comparison_family<char>("char", int_alphabet<char>());
  comparison_family<signed char>("signed char", int_alphabet<signed char>());
  comparison_family<unsigned char>("unsigned char", int_alphabet<unsigned char>());
  comparison_family<short>("short", int_alphabet<short>());
  comparison_family<unsigned short>("unsigned short", int_alphabet<unsigned short>());
  comparison_family<int>("int", int_alphabet<int>());
  comparison_family<unsigned>("unsigned", int_alphabet<unsigned>());
  comparison_family<long long>("long long", int_alphabet<long long>());
  comparison_family<unsigned long long>("unsigned long long", int_alphabet<unsigned long long>());
  comparison_family<wchar_t>("wchar_t", int_alphabet<wchar_t>());
  comparison_family<float>("float", float_alphabet<float>());
  comparison_family<double>("double", float_alphabet<double>());
}

// ---------------------------------------------------------------- io::read_chars histories
// read_chars(stream, n) is buffer::read_from_opt + to_raw_vector over an istream: all sequences of up to 3 calls with
// counts from {0,1,2,3,5} (optionally preceded by one plain unformatted read on the stream) on texts of length 0..6.
// Reference: a cursor into the text; a request for more than what is left yields nothing and leaves the stream failed,
// after which every request yields nothing; a request for n <= remaining characters yields exactly those n.
// ---------------------------------------------------------------- dynamic_array (the uninitialised block used by read_chars)
// dynamic_array<T,A>(n): exactly one block of n elements from the allocator, [data(), data_end()) is that block
// (every element writable and readable back), size() == n, and the block goes back to the allocator once with the
// same size.  All n of the growth lattice, both constructors, const and non-const accessors.
static void dynamic_array_lattice()
{
  using da = fcppt::container::dynamic_array<int, counting_alloc<int>>;
  for (std::size_t n : size_lattice())
    for (int ctor = 0; ctor < 2; ++ctor)
    {
      if (!vrt::begin("dynamic_array", n, ctor))
        continue;
      vrt::nontrivial(n > 0);
      std::size_t const live_before = reg().live.size();
      std::uint64_t const allocs_before = reg().allocs;
      {
        std::optional<da> holder;
        if (ctor == 0)
          holder.emplace(n);
        else
          holder.emplace(n, counting_alloc<int>());
        da &a = *holder;
        da const &ca = a;
        VRT_CHECK(a.size() == n && ca.size() == n, "dynamic_array:size", "size() %zu, constructed with %zu", a.size(), n);
        if (reg().allocs != allocs_before + 1)
          vrt::count("info:dynamic_array:not_exactly_one_allocation", 1); // not demanded by the property
        auto it = reg().live.find(a.data());
        bool const block_ok = it != reg().live.end() && it->second == n;
        VRT_CHECK(block_ok, "dynamic_array:storage_block", "data() is not a live block of %zu elements", n);
        VRT_CHECK(ca.data() == a.data() && ca.data_end() == a.data_end(), "dynamic_array:const_accessors", "const and non-const accessors disagree");
        VRT_CHECK(a.data_end() - a.data() == static_cast<std::ptrdiff_t>(n), "dynamic_array:data_end", "data_end() - data() = %td, size %zu",
                  a.data_end() - a.data(), n);
        if (block_ok && a.data_end() - a.data() == static_cast<std::ptrdiff_t>(n))
        {
          int k = 0;
          for (int *q = a.data(); q != a.data_end(); ++q)
            *q = 3 * k++ + 1;
          k = 0;
          bool same = true;
          for (int const *q = ca.data(); q != ca.data_end(); ++q)
            same = same && *q == 3 * k++ + 1;
          VRT_CHECK(same, "dynamic_array:contents", "elements written through data() read back differently");
        }
      }
      VRT_CHECK(reg().live.size() == live_before, "dynamic_array:leak", "%zu blocks live after destruction, %zu before", reg().live.size(), live_before);
    }
}

static void read_chars_histories()
{
  static int const counts[] = {0, 1, 2, 3, 5};
  std::string const full = "abcdef";
  for (std::size_t len = 0; len <= full.size(); ++len)
    for (int pre = 0; pre < 3; ++pre) // 0: nothing, 1: stream.get(), 2: stream.ignore(2)
      for (int nops = 1; nops <= 3; ++nops)
      {
        int total = 1;
        for (int i = 0; i < nops; ++i)
          total *= 5;
        for (int code = 0; code < total; ++code)
        {
          std::vector<int> seq;
          int x = code;
          for (int i = 0; i < nops; ++i)
          {
            seq.push_back(counts[x % 5]);
            x /= 5;
          }
          std::string text = "read_chars text=\"" + full.substr(0, len) + "\" pre=" + (pre == 0 ? "none" : pre == 1 ? "get" : "ignore(2)") + " counts=";
          for (int c : seq)
            text += std::to_string(c) + ",";
          if (!vrt::begin_text("read_chars_histories", text))
            continue;
          vrt::maybe_sample();
          std::istringstream stream(full.substr(0, len));
          std::size_t pos = 0;
          bool failed = false;
          if (pre == 1)
          {
            if (stream.get() == std::char_traits<char>::eof())
              failed = true;
            else
              pos = 1;
          }
          else if (pre == 2)
          {
            stream.ignore(2);
            pos = std::min<std::size_t>(2, len);
            failed = !stream.good(); // ignore() that meets the end sets eofbit: the next sentry fails
          }
          bool nontriv = false;
          for (std::size_t k = 0; k < seq.size(); ++k)
          {
            std::size_t const n = static_cast<std::size_t>(seq[k]);
            fcppt::io::optional_buffer const got = fcppt::io::read_chars(stream, n);
            bool const want = !failed && n <= len - pos;
            if (got.has_value() != want)
            {
              vrt::fail("read_chars:outcome", vrt::fmt("call %zu (count %zu, %zu characters left, stream %s) %s", k, n, len - pos, failed ? "failed" : "good",
                                                       got.has_value() ? "returned a buffer" : "returned nothing"));
              break;
            }
            if (want)
            {
              auto const &v = got.get_unsafe();
              VRT_CHECK(v.size() == n, "read_chars:size", "call %zu asked for %zu characters, the buffer has size %zu", k, n, v.size());
              VRT_CHECK(v.capacity() >= v.size(), "read_chars:capacity", "capacity %zu below size %zu", v.capacity(), v.size());
              if (v.size() == n)
                VRT_CHECK(std::equal(v.begin(), v.end(), full.begin() + static_cast<std::ptrdiff_t>(pos)), "read_chars:content", "call %zu returned other characters than the next %zu of the text", k, n);
              pos += n;
              nontriv = nontriv || (k > 0 && n == 0);
            }
            else
              failed = true;
          }
          vrt::nontrivial(nontriv || failed);
        }
      }
}

int main(int argc, char **argv)
{
  vrt::parse_args(argc, argv);
  bool const th = vrt::thorough();
  vrt::shard("raw_vector_single", [th] {
    SIZE_CAP = th ? 6 : 5;
    NVEC = 1;
    vrt::hist::limits l;
    l.max_depth = th ? 40 : 30;
    vrt::hist::explorer<vec_sys> e("raw_vector_single", l);
    e.run();
  }, 7200);
  vrt::shard("raw_vector_pair", [th] {
    SIZE_CAP = th ? 3 : 2;
    NVEC = 2;
    vrt::hist::limits l;
    l.max_depth = th ? 40 : 30;
    vrt::hist::explorer<vec_sys> e("raw_vector_pair", l);
    e.run();
  }, 7200);
  vrt::shard("buffer", [th] {
    BUF_CAP = th ? 3 : 2;
    vrt::hist::limits l;
    l.max_depth = th ? 30 : 20;
    vrt::hist::explorer<buf_sys> e("buffer", l);
    e.run();
  }, 7200);
  vrt::shard("raw_vector_growth_lattice", [] { raw_vector_growth(); });
  vrt::shard("buffer_growth_lattice", [] { buffer_growth(); });
  vrt::shard("raw_vector_comparison_types", [] { raw_vector_comparison_types(); });
  vrt::shard("read_chars_histories", [] { read_chars_histories(); });
  vrt::shard("dynamic_array_lattice", [] { dynamic_array_lattice(); });
  return vrt::run(argc, argv);
}

// C20, part 2d: normal (value-exact transparency) over float / double / long double and strong
// typedefs of double / long double; parameters include values that are not representable in a
// narrower floating point type.
#include "C20_real.hpp"

#include <fcppt/random/distribution/parameters/normal.hpp>

namespace
{
using namespace c20;

std::vector<real_pair> normal_params()
{
  std::vector<real_pair> r;
  for (ld m : {ld(-2.), ld(0.), ld(0.5), ld(1e6), nr_tenth, nr_big})
    for (ld s : {ld(1e-3), ld(0.25), ld(1.), ld(5.), nr_seven_tenths, nr_third, nr_one_plus})
      r.push_back({m, s});
  return r;
}

template <class E, class R> void normal_family(char const *rname)
{
  using base = typename rt<R>::base;
  using P = fcppt::random::distribution::parameters::normal<R>;
  static_assert(std::is_same_v<typename P::distribution, std::normal_distribution<base>>);
  std::string const nm = std::string("normal<") + rname + "," + E::name + ">";
  char const *const fn = intern(nm);
  std::vector<real_pair> const params = normal_params();
  for (std::size_t k = 0; k < params.size(); ++k)
  {
    real_pair const &pr = params[k];
    if (vrt::out_of_time())
      return;
    base const m = static_cast<base>(pr.x), s = static_cast<base>(pr.y);
    real_pair const &prq = params[(k + 5) % params.size()]; // stored while drawing with per-call parameters
    base const qm = static_cast<base>(prq.x), qs = static_cast<base>(prq.y);
    for (u64 const seed : seeds())
    {
      // normal_distribution keeps a second value between calls: reset() after an odd
      // number of draws changes the sequence, so forwarding of reset() is visible
      // (reset() after 1 and 3 draws is also part of the histories of every case)
      for (int reset_at : {-1, 1})
      {
        if (!vrt::begin_text(fn, vrt::fmt("%s(mean=%s, stddev=%s, seed=%s%s)", nm.c_str(), ldstr(m).c_str(), ldstr(s).c_str(),
                                          str128(static_cast<i128>(seed)).c_str(), reset_at >= 0 ? ", reset() after 1 draw" : "")))
          continue;
        vrt::nontrivial(true);
        vrt::maybe_sample();
        P const p{typename P::mean(rt<R>::wrap(m)), typename P::stddev(rt<R>::wrap(s))};
        P const q{typename P::mean(rt<R>::wrap(qm)), typename P::stddev(rt<R>::wrap(qs))};
        lockstep<E>(
            nm, p, std::normal_distribution<base>(m, s), seed, false, m, s,
            [&] {
              return fcppt::random::distribution::basic<P>(typename P::mean(rt<R>::wrap(m)), typename P::stddev(rt<R>::wrap(s)));
            },
            q, std::normal_distribution<base>(qm, qs), qm, qs, reset_at);
      }
    }
  }
}

// parameters -> std param_type -> parameters is the identity, for every (mean, stddev > 0) of the boundary list
template <class R> void roundtrip_normal(char const *rname)
{
  using base = typename rt<R>::base;
  using P = fcppt::random::distribution::parameters::normal<R>;
  using SD = std::normal_distribution<base>;
  using D = fcppt::random::distribution::basic<P>;
  std::string const nm = std::string("roundtrip<normal<") + rname + ">>";
  char const *const fn = intern(nm);
  std::vector<base> const values = real_boundary_values<base>();
  for (base const m : values)
    for (base const s : values)
    {
      if (!(s > base(0)))
        continue; // std::normal_distribution requires stddev > 0
      if (!vrt::begin_text(fn, nm + "(mean=" + show(m) + ", stddev=" + show(s) + ")"))
        continue;
      vrt::nontrivial(true);
      vrt::maybe_sample();
      P const p{typename P::mean(rt<R>::wrap(m)), typename P::stddev(rt<R>::wrap(s))};
      auto const sp = p.convert_from();
      VRT_CHECK(same(sp.mean(), m) && same(sp.stddev(), s), nm + ":convert_from", "convert_from gives mean %s stddev %s",
                show(sp.mean()).c_str(), show(sp.stddev()).c_str());
      P const back(P::convert_to(SD(m, s)));
      auto const sp2 = back.convert_from();
      VRT_CHECK(same(sp2.mean(), m) && same(sp2.stddev(), s), nm + ":convert_to", "convert_to(std).convert_from() gives mean %s stddev %s",
                show(sp2.mean()).c_str(), show(sp2.stddev()).c_str());
      D d(p);
      auto const sp3 = d.param().convert_from();
      VRT_CHECK(same(sp3.mean(), m) && same(sp3.stddev(), s) && same(d.distribution().mean(), m) && same(d.distribution().stddev(), s),
                nm + ":param_getter", "param() reports mean %s stddev %s, wrapped distribution mean %s stddev %s", show(sp3.mean()).c_str(),
                show(sp3.stddev()).c_str(), show(d.distribution().mean()).c_str(), show(d.distribution().stddev()).c_str());
      D d2(P{typename P::mean(rt<R>::wrap(base(0))), typename P::stddev(rt<R>::wrap(base(1)))});
      d2.param(p);
      auto const sp4 = d2.param().convert_from();
      VRT_CHECK(same(sp4.mean(), m) && same(sp4.stddev(), s), nm + ":param_getter_after_set",
                "param() after param(set) reports mean %s stddev %s", show(sp4.mean()).c_str(), show(sp4.stddev()).c_str());
    }
}

template <class R> void normal_shards(char const *rname, char const *shardname)
{
  std::string const t = rname;
  vrt::shard(std::string("normal/") + shardname + "/minstd_rand", [t] {
    normal_family<eng_minstd, R>(t.c_str());
    // last: a round trip that trips an assertion of the std library for every value must not use up the
    // restarts of the shard before the sequences were compared
    roundtrip_normal<R>(t.c_str());
  });
  vrt::shard(std::string("normal/") + shardname + "/mt19937", [t] { normal_family<eng_mt, R>(t.c_str()); });
}
}

void c20::register_normal()
{
  normal_shards<double>("double", "double");
  normal_shards<float>("float", "float");
  normal_shards<long double>("long double", "long_double");
  normal_shards<st_double>("strong_typedef<double>", "st_double");
  normal_shards<st_ldouble>("strong_typedef<long double>", "st_long_double");
  normal_shards<ratio<double>>("ratio<double>(user transform)", "user_ratio_double");
}

// C16 -- shared helpers of the C16 harness (domains, source/target container kinds, descriptors).
// Nothing in here uses fcppt: this is the reference side.
#pragma once
#include <vrt.hpp>

#include <algorithm>
#include <cstddef>
#include <deque>
#include <forward_list>
#include <iterator>
#include <list>
#include <map>
#include <memory>
#include <set>
#include <string>
#include <type_traits>
#include <utility>
#include <vector>

namespace c16
{
using seq = std::vector<int>;

// ---------------------------------------------------------------- domains
// quick tier: sequences up to length 5, strings up to length 6; thorough: 7 / 8 (DESIGN.md C16 asks for 6 / 7)
inline int seq_max_len() { return vrt::thorough() ? 7 : 5; }
inline int str_max_len() { return vrt::thorough() ? 8 : 6; }

// all sequences over {0..alpha-1} of length <= maxlen, shortest first, then lexicographic
inline std::vector<seq> all_seqs(int alpha, int maxlen)
{
  std::vector<seq> r;
  r.push_back(seq{});
  std::size_t from = 0;
  for (int l = 1; l <= maxlen; ++l)
  {
    std::size_t const to = r.size();
    for (std::size_t i = from; i < to; ++i)
      for (int a = 0; a < alpha; ++a)
      {
        seq s = r[i];
        s.push_back(a);
        r.push_back(s);
      }
    from = to;
  }
  return r;
}

inline std::vector<seq> const &seqs3()
{
  static std::vector<seq> const r = all_seqs(3, seq_max_len());
  return r;
}

// all strings over the given alphabet up to maxlen
inline std::vector<std::string> all_strings(std::string const &alpha, int maxlen)
{
  std::vector<std::string> r;
  for (seq const &s : all_seqs(static_cast<int>(alpha.size()), maxlen))
  {
    std::string t;
    for (int c : s)
      t += alpha[static_cast<std::size_t>(c)];
    r.push_back(t);
  }
  return r;
}

template <class It> inline std::string show_range(It b, It e)
{
  std::string r = "[";
  bool first = true;
  for (; b != e; ++b)
  {
    if (!first)
      r += ',';
    first = false;
    r += std::to_string(static_cast<long long>(*b));
  }
  return r + "]";
}
inline std::string show(seq const &s) { return show_range(s.begin(), s.end()); }
inline std::string show(std::string const &s) { return "\"" + s + "\""; }
inline std::string show(std::vector<std::string> const &v)
{
  std::string r = "[";
  for (std::size_t i = 0; i < v.size(); ++i)
    r += (i ? ",\"" : "\"") + v[i] + "\"";
  return r + "]";
}
inline std::string show(std::map<int, int> const &m)
{
  std::string r = "{";
  bool first = true;
  for (auto const &kv : m)
  {
    if (!first)
      r += ',';
    first = false;
    r += std::to_string(kv.first) + ":" + std::to_string(kv.second);
  }
  return r + "}";
}

// the 27 functions {0,1,2} -> {0,1,2}: digit x of the base-3 code; other arguments are reduced mod 3 first
inline int mod3(int x) { return ((x % 3) + 3) % 3; }
inline int apply3(int code, int x)
{
  static int const p[3] = {1, 3, 9};
  return (code / p[mod3(x)]) % 3;
}
inline std::string show_fun3(int code)
{
  return std::string("f=") + char('0' + apply3(code, 0)) + char('0' + apply3(code, 1)) + char('0' + apply3(code, 2));
}
// the 8 predicates on {0,1,2}: bit x of the mask
inline bool pred3(int mask, int x) { return ((mask >> mod3(x)) & 1) != 0; }
inline std::string show_pred3(int mask)
{
  std::string r = "p={";
  for (int x = 0; x < 3; ++x)
    if (pred3(mask, x))
      r += char('0' + x);
  return r + "}";
}
// the 64 partial functions {0,1,2} -> {nothing,0,1,2}: base-4 digit x, 0 = nothing, d>0 = value d-1
inline int opt3(int code, int x)
{
  static int const p[3] = {1, 4, 16};
  return (code / p[mod3(x)]) % 4 - 1; // -1 = nothing
}
inline std::string show_opt3(int code)
{
  std::string r = "g=";
  for (int x = 0; x < 3; ++x)
    r += opt3(code, x) < 0 ? '-' : char('0' + opt3(code, x));
  return r;
}

inline seq sorted(seq s)
{
  std::stable_sort(s.begin(), s.end());
  return s;
}
inline seq sorted_unique(seq s)
{
  s = sorted(s);
  seq r;
  for (int v : s)
    if (r.empty() || r.back() != v)
      r.push_back(v);
  return r;
}

// call log: the element arguments with which the callback was invoked, in order
inline seq &call_log()
{
  static seq l;
  return l;
}

// ---------------------------------------------------------------- ranges of unknown size
// random-access iterators but no size(): the reserve path must go through std::distance
struct ra_unsized
{
  using value_type = int;
  using iterator = std::vector<int>::const_iterator;
  using const_iterator = iterator;
  std::vector<int> v;
  iterator begin() const { return v.begin(); }
  iterator end() const { return v.end(); }
};
// forward iterators, no size(): no reserve possible
struct fwd_unsized
{
  using value_type = int;
  using iterator = std::forward_list<int>::const_iterator;
  using const_iterator = iterator;
  std::forward_list<int> v;
  iterator begin() const { return v.begin(); }
  iterator end() const { return v.end(); }
};
// single-pass input iterators, no size(); dereferencing end() trips _GLIBCXX_ASSERTIONS
struct input_once
{
  using value_type = int;
  std::vector<int> v;
  struct iterator
  {
    using iterator_category = std::input_iterator_tag;
    using value_type = int;
    using difference_type = std::ptrdiff_t;
    using pointer = int const *;
    using reference = int const &;
    std::vector<int> const *v;
    std::size_t i;
    reference operator*() const { return (*v)[i]; }
    iterator &operator++()
    {
      ++i;
      return *this;
    }
    iterator operator++(int)
    {
      iterator t = *this;
      ++i;
      return t;
    }
    bool operator==(iterator const &o) const { return i == o.i; }
    bool operator!=(iterator const &o) const { return i != o.i; }
  };
  using const_iterator = iterator;
  iterator begin() const { return iterator{&v, 0}; }
  iterator end() const { return iterator{&v, v.size()}; }
};

// bidirectional iterators, no size()
struct bidi_unsized
{
  using value_type = int;
  using iterator = std::list<int>::const_iterator;
  using const_iterator = iterator;
  std::list<int> v;
  iterator begin() const { return v.begin(); }
  iterator end() const { return v.end(); }
};
// A really single-pass range (like fcppt::iterator::make_range over std::istream_iterator): all iterators share one
// cursor, begin() reads the first element, ++ advances the shared cursor and caches the next element.  Traversing it
// a second time (a second begin(), or advancing a stale copy of an iterator) yields nothing / the wrong elements,
// and is recorded in `reread` (reported as the information counter info:<fn>:source_read_twice; the wrong result that a
// consuming second traversal produces is what the verdict checks see).
struct sp_state
{
  std::vector<int> data;
  std::size_t cursor = 0;
  unsigned begins = 0;
  bool reread = false;
};
struct single_pass
{
  using value_type = int;
  std::shared_ptr<sp_state> st;
  struct iterator
  {
    using iterator_category = std::input_iterator_tag;
    using value_type = int;
    using difference_type = std::ptrdiff_t;
    using pointer = int const *;
    using reference = int const &;
    sp_state *st;
    std::size_t pos; // cursor value this iterator was positioned at
    bool at_end;
    int cached;
    reference operator*() const { return cached; }
    iterator &operator++()
    {
      if (at_end)
        return *this;
      if (pos != st->cursor)
        st->reread = true; // a stale copy is advanced: somebody else has consumed the range already
      ++st->cursor;
      pos = st->cursor;
      if (st->cursor < st->data.size())
        cached = st->data[st->cursor];
      else
        at_end = true;
      return *this;
    }
    iterator operator++(int)
    {
      iterator t = *this;
      ++*this;
      return t;
    }
    bool operator==(iterator const &o) const { return at_end == o.at_end; }
    bool operator!=(iterator const &o) const { return at_end != o.at_end; }
  };
  using const_iterator = iterator;
  iterator begin() const
  {
    if (st->begins++ > 0)
      st->reread = true;
    bool const e = st->cursor >= st->data.size();
    return iterator{st.get(), st->cursor, e, e ? 0 : st->data[st->cursor]};
  }
  iterator end() const { return iterator{st.get(), 0, true, 0}; }
};

// ---------------------------------------------------------------- container kinds
// make(s): the container built from the sequence; order(s): the order in which its elements are visited
struct k_vector
{
  using type = std::vector<int>;
  static constexpr char const *name = "vector";
  static type make(seq const &s) { return type(s.begin(), s.end()); }
  static seq order(seq const &s) { return s; }
};
struct k_list
{
  using type = std::list<int>;
  static constexpr char const *name = "list";
  static type make(seq const &s) { return type(s.begin(), s.end()); }
  static seq order(seq const &s) { return s; }
};
struct k_deque
{
  using type = std::deque<int>;
  static constexpr char const *name = "deque";
  static type make(seq const &s) { return type(s.begin(), s.end()); }
  static seq order(seq const &s) { return s; }
};
struct k_set
{
  using type = std::set<int>;
  static constexpr char const *name = "set";
  static type make(seq const &s)
  {
    type r;
    for (int v : s)
      r.insert(v);
    return r;
  }
  static seq order(seq const &s) { return sorted_unique(s); }
};
struct k_multiset
{
  using type = std::multiset<int>;
  static constexpr char const *name = "multiset";
  static type make(seq const &s)
  {
    type r;
    for (int v : s)
      r.insert(v);
    return r;
  }
  static seq order(seq const &s) { return sorted(s); }
};
struct k_ra_unsized
{
  using type = ra_unsized;
  static constexpr char const *name = "ra_unsized";
  static type make(seq const &s) { return type{std::vector<int>(s.begin(), s.end())}; }
  static seq order(seq const &s) { return s; }
};
struct k_fwd_unsized
{
  using type = fwd_unsized;
  static constexpr char const *name = "fwd_unsized";
  static type make(seq const &s) { return type{std::forward_list<int>(s.begin(), s.end())}; }
  static seq order(seq const &s) { return s; }
};
struct k_input_once
{
  using type = input_once;
  static constexpr char const *name = "input_once";
  static type make(seq const &s) { return type{std::vector<int>(s.begin(), s.end())}; }
  static seq order(seq const &s) { return s; }
};
struct k_bidi_unsized
{
  using type = bidi_unsized;
  static constexpr char const *name = "bidi_unsized";
  static type make(seq const &s) { return type{std::list<int>(s.begin(), s.end())}; }
  static seq order(seq const &s) { return s; }
};
struct k_single_pass
{
  using type = single_pass;
  static constexpr char const *name = "single_pass";
  static type make(seq const &s)
  {
    auto st = std::make_shared<sp_state>();
    st->data.assign(s.begin(), s.end());
    return type{st};
  }
  static seq order(seq const &s) { return s; }
};
// after a call that consumed `src`: a single-pass source must have been traversed at most once
template <class SK, class Src> inline void consumed_once(Src const &src, std::string const &name)
{
  // Information only, never a verdict: the documentation does not say how often begin() may be called.  A traversal
  // that really consumes the source before the loop shows up in the result / visit-order checks, which are verdicts.
  if constexpr (std::is_same_v<SK, k_single_pass>)
  {
    if (src.st->reread)
      vrt::count("info:" + name + ":source_read_twice");
  }
}
// string of the characters 'a'+x
struct k_string
{
  using type = std::string;
  static constexpr char const *name = "string";
  static type make(seq const &s)
  {
    type r;
    for (int v : s)
      r += static_cast<char>('a' + v);
    return r;
  }
  static seq order(seq const &s) { return s; }
};

template <class C> inline seq contents(C const &c)
{
  seq r;
  for (auto const &v : c)
    r.push_back(static_cast<int>(v));
  return r;
}
inline seq contents(std::string const &c)
{
  seq r;
  for (char v : c)
    r.push_back(v - 'a');
  return r;
}

// all maps with keys in {0..nkeys-1} and values in {0,1,2} (4^nkeys of them): base-4 digit k = 0 absent, else value+1
inline std::vector<std::map<int, int>> all_maps(int nkeys)
{
  std::vector<std::map<int, int>> r;
  int total = 1;
  for (int i = 0; i < nkeys; ++i)
    total *= 4;
  for (int code = 0; code < total; ++code)
  {
    std::map<int, int> m;
    int c = code;
    for (int k = 0; k < nkeys; ++k, c /= 4)
      if (c % 4)
        m[k] = c % 4 - 1;
    r.push_back(m);
  }
  return r;
}
inline int map_keys() { return vrt::thorough() ? 6 : 4; }

// how a source is handed to fcppt
enum class pass
{
  const_lvalue,
  lvalue,
  rvalue
};
inline char const *show(pass p)
{
  return p == pass::const_lvalue ? " const&" : p == pass::lvalue ? "&" : "&&";
}

// An exception escaping from fcppt must be attributed to the announced case: the noexcept wrapper turns it into
// std::terminate, which the coordinator records as crash:<fn>:terminate for that case and resumes after it.
inline void shard(std::string name, std::function<void()> body)
{
  vrt::shard(std::move(name), [body]() noexcept { body(); });
}

void register_algorithm_shards();
void register_algorithm2_shards();
void register_container_shards();
void register_array_tuple_shards();
void register_hetero_shards();
void register_callback_shards();
}

// C16 compile probe: array::append must accept lvalue arrays (it uses move_if_rvalue on both arguments).
#include <fcppt/array/append.hpp>
#include <fcppt/array/object_impl.hpp>

fcppt::array::object<int, 3> c16_probe_append(fcppt::array::object<int, 2> const &a, fcppt::array::object<int, 1> &b)
{
  return fcppt::array::append(a, b);
}

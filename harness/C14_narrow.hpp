// C14_narrow.hpp (used by C14_narrow.cpp, C14_narrow_mixed_a.cpp, C14_narrow_mixed_b.cpp) -- scalar types subject to integral promotion (std::int8_t, std::uint8_t,
// std::int16_t) and mixed Left/Right scalar types.  Every free operator of vector, dim and
// matrix whose result value type is decltype(L op R) must compute each component in that
// promoted type: the entries are chosen at the limits of the narrow types, so sums and
// products leave the narrow range while staying exactly representable in the declared
// result type.  Oracle: long arithmetic on plain arrays; a case whose exact result (or a
// partial sum of a product fold) does not fit the declared result type is skipped *before*
// fcppt is called (signed overflow would be undefined behaviour, e.g. int16 products).
// The declared result value type itself is a static_assert.
//
// Mixed Left != Right instantiations used here are also registered as compile probes
// (C14_probe_mixed.cpp), so that a change which stops them compiling is a violation
// (compile:<name>) rather than a harness error.
#pragma once
#include "C14_common.hpp"

#include <fcppt/math/dim/arithmetic.hpp>
#include <fcppt/math/matrix/arithmetic.hpp>
#include <fcppt/math/matrix/vector.hpp>
#include <fcppt/math/vector/arithmetic.hpp>
#include <fcppt/math/vector/dim.hpp>
#include <fcppt/optional/object_impl.hpp>

#include <cstdint>
#include <limits>
#include <type_traits>

namespace c14
{
namespace narrow
{
namespace fm = fcppt::math::matrix;
namespace fv = fcppt::math::vector;
namespace fd = fcppt::math::dim;

using i8 = std::int8_t;
using u8 = std::uint8_t;
using i16 = std::int16_t;
using u16 = std::uint16_t; // only as the left operand of (op) int: u16 (op) u16 promotes to int and overflows

template <class T> struct sname;
template <> struct sname<i8> { static constexpr char const *v = "i8"; };
template <> struct sname<u8> { static constexpr char const *v = "u8"; };
template <> struct sname<i16> { static constexpr char const *v = "i16"; };
template <> struct sname<u16> { static constexpr char const *v = "u16"; };
template <> struct sname<int> { static constexpr char const *v = "int"; };
template <> struct sname<long> { static constexpr char const *v = "long"; };

// entry sets: the limits of the type, values whose pairwise sums/products leave it, 0, +-1
template <class T> std::vector<long> vals(bool reduced = false);
template <> inline std::vector<long> vals<i8>(bool reduced) { return reduced ? std::vector<long>{-128, -1, 0, 127} : std::vector<long>{-128, -100, -1, 0, 1, 100, 127}; }
template <> inline std::vector<long> vals<u8>(bool reduced) { return reduced ? std::vector<long>{0, 1, 200, 255} : std::vector<long>{0, 1, 2, 100, 200, 255}; }
template <> inline std::vector<long> vals<i16>(bool reduced) { return reduced ? std::vector<long>{-32768, -1, 0, 32767} : std::vector<long>{-32768, -20000, -1, 0, 1, 20000, 32767}; }
template <> inline std::vector<long> vals<u16>(bool reduced) { return reduced ? std::vector<long>{0, 5, 65535} : std::vector<long>{0, 1, 5, 40000, 65535}; }
template <> inline std::vector<long> vals<int>(bool reduced) { return reduced ? std::vector<long>{-100000, -1, 0, 70000} : std::vector<long>{-100000, -3, 0, 1, 70000}; }
template <> inline std::vector<long> vals<long>(bool reduced) { return reduced ? std::vector<long>{-3000000000L, -1, 0, 3000000000L} : std::vector<long>{-3000000000L, -1, 0, 2, 3000000000L}; }

template <class T> bool fits(long v)
{
  return v >= static_cast<long>(std::numeric_limits<T>::min()) && v <= static_cast<long>(std::numeric_limits<T>::max());
}

template <class V, sz N> V mk_any(rvec<N> const &a)
{
  V v{fcppt::no_init{}};
  for (sz i = 0; i < N; ++i)
    v.storage()[i] = static_cast<typename V::value_type>(a[i]);
  return v;
}
template <class M, sz R, sz C> M mk_anym(rmat<R, C> const &a)
{
  M m{fcppt::no_init{}};
  for (sz i = 0; i < R * C; ++i)
    m.storage()[i] = static_cast<typename M::value_type>(a.d[i]);
  return m;
}
// exact-size heap buffer of T with pointer-view objects over it
template <class T, sz N> struct tbuf
{
  std::unique_ptr<T[]> p;
  explicit tbuf(rvec<N> const &a) : p(new T[N])
  {
    for (sz i = 0; i < N; ++i)
      p[i] = static_cast<T>(a[i]);
  }
  fv::object<T, N, view_storage<T, N>> vec() const { return fv::object<T, N, view_storage<T, N>>{view_storage<T, N>(p.get())}; }
  fd::object<T, N, view_storage<T, N>> dim() const { return fd::object<T, N, view_storage<T, N>>{view_storage<T, N>(p.get())}; }
  template <sz R, sz C> fm::object<T, R, C, view_storage<T, N>> mat() const
  {
    static_assert(R * C == N);
    return fm::object<T, R, C, view_storage<T, N>>{view_storage<T, N>(p.get())};
  }
};

template <class T, sz N> std::vector<rvec<N>> vecs_over(std::vector<long> const &vs)
{
  std::vector<rvec<N>> out;
  for (auto const &m : all_over<1, N>(vs))
    out.push_back(m.d);
  return out;
}

// case name (with the shape) and signature base (function + scalar instantiation only)
template <class L, class R> std::string tag(char const *group, std::string const &shape_text)
{
  return std::string("narrow_") + group + "<" + sname<L>::v + "," + sname<R>::v + "," + shape_text + ">";
}
template <class L, class R> std::string sigbase(char const *group)
{
  return std::string("narrow_") + group + "<" + sname<L>::v + "," + sname<R>::v + ">";
}

// a result is "interesting" when some component lies outside the range of both operand types
template <class L, class R, class A> bool leaves_operand_range(A const &a)
{
  for (long x : a)
    if (!fits<L>(x) || !fits<R>(x))
      return true;
  return false;
}

template <class Opt, sz N> void check_quot(Opt const &got, rvec<N> const &num, rvec<N> const &den, std::string const &sig)
{
  bool defined = true;
  for (sz i = 0; i < N; ++i)
    defined = defined && den[i] != 0;
  if (!defined)
  {
    C14_TRUE(!got.has_value(), sig + ":zero_divisor", "a zero divisor gave a value");
    return;
  }
  if (!got.has_value())
  {
    failv(sig + ":missing", "non-zero divisors gave nothing");
    return;
  }
  rvec<N> want;
  for (sz i = 0; i < N; ++i)
    want[i] = num[i] / den[i];
  C14_EQ(rdv(got.get_unsafe()), want, sig + ":wrong", "quotient");
}

// ------------------------------------------------------------------ vector / dim component-wise
// K = 0: vector (op) vector, 1: dim (op) dim, 2: vector (op) dim
template <int K, class L, class R, sz N> void componentwise(std::vector<long> const &lv, std::vector<long> const &rv)
{
  static char const *const kn[] = {"vector", "dim", "vector_dim"};
  static std::string const fn = tag<L, R>(kn[K], std::to_string(N));
  static std::string const sg = sigbase<L, R>(kn[K]);
  using LS = std::conditional_t<K == 1, fd::static_<L, N>, fv::static_<L, N>>;
  using RS = std::conditional_t<K == 0, fv::static_<R, N>, fd::static_<R, N>>;
  using add_t = decltype(std::declval<L>() + std::declval<R>());
  using sub_t = decltype(std::declval<L>() - std::declval<R>());
  using mul_t = decltype(std::declval<L>() * std::declval<R>());
  using div_t = decltype(std::declval<L>() / std::declval<R>());
  for (auto const &u : vecs_over<L, N>(lv))
  {
    if (vrt::out_of_time())
      return;
    for (auto const &w : vecs_over<R, N>(rv))
    {
      rvec<N> const sum = rvadd(u, w), diff = rvsub(u, w), prod = rvmul(u, w);
      bool ok_add = true, ok_sub = true, ok_mul = true;
      for (sz i = 0; i < N; ++i)
      {
        ok_add = ok_add && fits<add_t>(sum[i]);
        ok_sub = ok_sub && fits<sub_t>(diff[i]);
        ok_mul = ok_mul && fits<mul_t>(prod[i]);
      }
      // results not exactly representable in the declared result type are not evaluated
      if (!vrt::begin_text(fn.c_str(), fn + " u=" + show(u) + " v=" + show(w)))
        continue;
      vrt::nontrivial((ok_add && leaves_operand_range<L, R>(sum)) || (ok_sub && leaves_operand_range<L, R>(diff)) ||
                      (ok_mul && leaves_operand_range<L, R>(prod)));
      vrt::maybe_sample();
      LS const su = mk_any<LS>(u);
      RS const sw = mk_any<RS>(w);
      tbuf<L, N> const bu(u);
      tbuf<R, N> const bw(w);
      auto const vu = [&] { if constexpr (K == 1) return bu.dim(); else return bu.vec(); }();
      auto const vw = [&] { if constexpr (K == 0) return bw.vec(); else return bw.dim(); }();
      static_assert(std::is_same_v<typename decltype(su + sw)::value_type, add_t>);
      static_assert(std::is_same_v<typename decltype(su - sw)::value_type, sub_t>);
      static_assert(std::is_same_v<typename decltype(su * sw)::value_type, mul_t>);
      if (ok_add)
      {
        C14_EQ(rdv(su + sw), sum, sg + ":add", "u+v");
        C14_EQ(rdv(vu + vw), sum, sg + ":add:view", "u+v (view storages)");
      }
      if (ok_sub)
      {
        C14_EQ(rdv(su - sw), diff, sg + ":sub", "u-v");
        C14_EQ(rdv(vu - vw), diff, sg + ":sub:view", "u-v (view storages)");
      }
      if (ok_mul)
      {
        C14_EQ(rdv(su * sw), prod, sg + ":mul", "u*v");
        C14_EQ(rdv(vu * vw), prod, sg + ":mul:view", "u*v (view storages)");
      }
      {
        auto const q = su / sw;
        static_assert(std::is_same_v<typename std::remove_cvref_t<decltype(q.get_unsafe())>::value_type, div_t>);
        check_quot(q, u, w, sg + ":div");
        check_quot(vu / vw, u, w, sg + ":div:view");
      }
      if constexpr (K != 2)
      {
        // unary minus and scalar operators; the scalars are the first components
        using neg_t = decltype(-std::declval<L>());
        static_assert(std::is_same_v<typename decltype(-su)::value_type, neg_t>);
        C14_EQ(rdv(-su), rvscal(-1, u), sg + ":negate", "-u");
        C14_EQ(rdv(-vu), rvscal(-1, u), sg + ":negate:view", "-u (view storage)");
        R const kr = static_cast<R>(w[0]);
        L const kl = static_cast<L>(u[0]);
        rvec<N> const ukr = rvscal(w[0], u), klw = rvscal(u[0], w);
        bool sok = true;
        for (sz i = 0; i < N; ++i)
          sok = sok && fits<mul_t>(ukr[i]) && fits<mul_t>(klw[i]);
        if (sok)
        {
          static_assert(std::is_same_v<typename decltype(su * kr)::value_type, mul_t>);
          static_assert(std::is_same_v<typename decltype(kl * sw)::value_type, mul_t>);
          C14_EQ(rdv(su * kr), ukr, sg + ":scalar:right", "u*k");
          C14_EQ(rdv(vu * kr), ukr, sg + ":scalar:right:view", "u*k (view storage)");
          C14_EQ(rdv(kl * sw), klw, sg + ":scalar:left", "k*v");
          C14_EQ(rdv(kl * vw), klw, sg + ":scalar:left:view", "k*v (view storage)");
        }
        rvec<N> den;
        den.fill(w[0]);
        check_quot(su / kr, u, den, sg + ":scalar:div");
      }
    }
  }
}

// ------------------------------------------------------------------ matrix + - and scalar *
template <class L, class R, sz Rr, sz C> void matrix_sums(std::vector<long> const &lv, std::vector<long> const &rv)
{
  static std::string const fn = tag<L, R>("matrix_add_sub", shape(Rr, C));
  static std::string const sg = sigbase<L, R>("matrix_add_sub");
  using LM = fm::static_<L, Rr, C>;
  using RM = fm::static_<R, Rr, C>;
  using add_t = decltype(std::declval<L>() + std::declval<R>());
  using sub_t = decltype(std::declval<L>() - std::declval<R>());
  using mul_t = decltype(std::declval<L>() * std::declval<R>());
  auto const fa = all_over<Rr, C>(lv);
  auto const fb = all_over<Rr, C>(rv);
  for (auto const &a : fa)
  {
    if (vrt::out_of_time())
      return;
    for (auto const &b : fb)
    {
      rmat<Rr, C> const sum = radd(a, b), diff = rsub(a, b), ak = rscal(b.d[0], a), kb = rscal(a.d[0], b);
      bool ok_add = true, ok_sub = true, ok_ak = true, ok_kb = true;
      for (sz i = 0; i < Rr * C; ++i)
      {
        ok_add = ok_add && fits<add_t>(sum.d[i]);
        ok_sub = ok_sub && fits<sub_t>(diff.d[i]);
        ok_ak = ok_ak && fits<mul_t>(ak.d[i]);
        ok_kb = ok_kb && fits<mul_t>(kb.d[i]);
      }
      if (!vrt::begin_text(fn.c_str(), fn + " A=" + show(a) + " B=" + show(b)))
        continue;
      vrt::nontrivial((ok_add && leaves_operand_range<L, R>(sum.d)) || (ok_sub && leaves_operand_range<L, R>(diff.d)) ||
                      (ok_ak && leaves_operand_range<L, R>(ak.d)));
      vrt::maybe_sample();
      LM const sa = mk_anym<LM>(a);
      RM const sb = mk_anym<RM>(b);
      tbuf<L, Rr * C> const ba(a.d);
      tbuf<R, Rr * C> const bb(b.d);
      auto const va = ba.template mat<Rr, C>();
      auto const vb = bb.template mat<Rr, C>();
      static_assert(std::is_same_v<typename decltype(sa + sb)::value_type, add_t>);
      static_assert(std::is_same_v<typename decltype(sa - sb)::value_type, sub_t>);
      if (ok_add)
      {
        C14_EQ(rd(sa + sb), sum, sg + ":add", "A+B");
        C14_EQ(rd(va + vb), sum, sg + ":add:view", "A+B (view storages)");
      }
      if (ok_sub)
      {
        C14_EQ(rd(sa - sb), diff, sg + ":sub", "A-B");
        C14_EQ(rd(va - vb), diff, sg + ":sub:view", "A-B (view storages)");
      }
      R const kr = static_cast<R>(b.d[0]);
      L const kl = static_cast<L>(a.d[0]);
      static_assert(std::is_same_v<typename decltype(sa * kr)::value_type, mul_t>);
      static_assert(std::is_same_v<typename decltype(kl * sb)::value_type, mul_t>);
      if (ok_ak)
      {
        C14_EQ(rd(sa * kr), ak, sg + ":scalar:right", "A*k");
        C14_EQ(rd(va * kr), ak, sg + ":scalar:right:view", "A*k (view storage)");
      }
      if (ok_kb)
      {
        C14_EQ(rd(kl * sb), kb, sg + ":scalar:left", "k*B");
        C14_EQ(rd(kl * vb), kb, sg + ":scalar:left:view", "k*B (view storage)");
      }
    }
  }
}

// exact product with every partial sum (in fold order) checked against the result type
template <class RT, sz Rr, sz K, sz C> bool exact_product(rmat<Rr, K> const &a, rmat<K, C> const &b, rmat<Rr, C> &out)
{
  for (sz i = 0; i < Rr; ++i)
    for (sz j = 0; j < C; ++j)
    {
      long s = 0;
      for (sz k = 0; k < K; ++k)
      {
        long const p = a.at(i, k) * b.at(k, j);
        if (!fits<RT>(p))
          return false;
        s += p;
        if (!fits<RT>(s))
          return false;
      }
      out.at(i, j) = s;
    }
  return true;
}

// ------------------------------------------------------------------ matrix * matrix
template <class L, class R, sz Rr, sz K, sz C> void matrix_products(std::vector<long> const &lv, std::vector<long> const &rv)
{
  static_assert(tall_left_ok(Rr, K), "tall-left products belong to the binary C14b");
  static std::string const fn = tag<L, R>("matrix_product", shape(Rr, K) + "." + shape(K, C));
  static std::string const sg = sigbase<L, R>("matrix_product");
  using LM = fm::static_<L, Rr, K>;
  using RM = fm::static_<R, K, C>;
  using mul_t = decltype(std::declval<L>() * std::declval<R>());
  auto const fa = all_over<Rr, K>(lv);
  auto const fb = all_over<K, C>(rv);
  for (auto const &a : fa)
  {
    if (vrt::out_of_time())
      return;
    LM const sa = mk_anym<LM>(a);
    tbuf<L, Rr * K> const ba(a.d);
    auto const va = ba.template mat<Rr, K>();
    for (auto const &b : fb)
    {
      rmat<Rr, C> want;
      if (!exact_product<mul_t>(a, b, want))
        continue;
      if (!vrt::begin_text(fn.c_str(), fn + " A=" + show(a) + " B=" + show(b)))
        continue;
      vrt::nontrivial(leaves_operand_range<L, R>(want.d));
      vrt::maybe_sample();
      RM const sb = mk_anym<RM>(b);
      tbuf<R, K * C> const bb(b.d);
      auto const vb = bb.template mat<K, C>();
      static_assert(std::is_same_v<typename decltype(sa * sb)::value_type, mul_t>);
      C14_EQ(rd(sa * sb), want, sg + ":wrong", "A*B");
      C14_EQ(rd(va * vb), want, sg + ":wrong:view", "A*B (view storages)");
      C14_EQ(rd(sa * vb), want, sg + ":wrong:view", "A*B (static, view)");
    }
  }
}

// ------------------------------------------------------------------ matrix * vector
template <class L, class R, sz Rr, sz C> void matrix_vector(std::vector<long> const &lv, std::vector<long> const &rv)
{
  static std::string const fn = tag<L, R>("matrix_vector", shape(Rr, C));
  static std::string const sg = sigbase<L, R>("matrix_vector");
  using LM = fm::static_<L, Rr, C>;
  using RV = fv::static_<R, C>;
  using mul_t = decltype(std::declval<L>() * std::declval<R>());
  auto const fa = all_over<Rr, C>(lv);
  auto const xs = vecs_over<R, C>(rv);
  std::vector<RV> sx;
  std::vector<tbuf<R, C>> bx;
  for (auto const &x : xs)
  {
    sx.push_back(mk_any<RV>(x));
    bx.emplace_back(x);
  }
  for (auto const &a : fa)
  {
    if (vrt::out_of_time())
      return;
    LM const sa = mk_anym<LM>(a);
    tbuf<L, Rr * C> const ba(a.d);
    auto const va = ba.template mat<Rr, C>();
    for (std::size_t xi = 0; xi < xs.size(); ++xi)
    {
      rmat<C, 1> col;
      col.d = xs[xi];
      rmat<Rr, 1> wantm;
      if (!exact_product<mul_t>(a, col, wantm))
        continue;
      rvec<Rr> const want = wantm.d;
      if (!vrt::begin_text(fn.c_str(), fn + " A=" + show(a) + " x=" + show(xs[xi])))
        continue;
      vrt::nontrivial(leaves_operand_range<L, R>(want));
      vrt::maybe_sample();
      static_assert(std::is_same_v<decltype(sa * sx[xi]), fv::static_<mul_t, Rr>>);
      C14_EQ(rdv(sa * sx[xi]), want, sg + ":wrong", "A*x");
      C14_EQ(rdv(va * bx[xi].vec()), want, sg + ":wrong:view", "A*x (view storages)");
      C14_EQ(rdv(sa * bx[xi].vec()), want, sg + ":wrong:view", "A*x (static, view)");
      // the same product as matrix * (Cx1 matrix)
      if constexpr (tall_left_ok(Rr, C))
        C14_EQ(rd(sa * mk_anym<fm::static_<R, C, 1>>(col)).d, want, sg + ":law:column_matrix", "A*x vs A*(Cx1 matrix)");
    }
  }
}

template <class L, class R> void type_pair_small()
{
  bool const red = true;
  componentwise<0, L, R, 2>(vals<L>(), vals<R>());
  componentwise<1, L, R, 2>(vals<L>(), vals<R>());
  componentwise<2, L, R, 2>(vals<L>(red), vals<R>(red));
  matrix_sums<L, R, 2, 2>(vals<L>(red), vals<R>(red));
  matrix_products<L, R, 1, 2, 1>(vals<L>(), vals<R>());
  matrix_products<L, R, 2, 2, 2>(vals<L>(red), vals<R>(red));
}
}
}

// C01 -- shared helpers of the totality registry (see C01.cpp)
#pragma once
#include <vrt.hpp>

#include <cstddef>
#include <cstdint>
#include <exception>
#include <limits>
#include <memory>
#include <set>
#include <string>
#include <string_view>
#include <typeinfo>
#include <vector>

namespace c01
{
using i128 = __int128;
using u8 = std::uint8_t;
using i8 = std::int8_t;
using u16 = std::uint16_t;
using i16 = std::int16_t;
using u32 = std::uint32_t;
using i32 = std::int32_t;
using u64 = std::uint64_t;
using i64 = std::int64_t;

template <class T> constexpr i128 lo() { return static_cast<i128>(std::numeric_limits<T>::min()); }
template <class T> constexpr i128 hi() { return static_cast<i128>(std::numeric_limits<T>::max()); }
template <class T> constexpr bool fits(i128 v) { return v >= lo<T>() && v <= hi<T>(); }
inline std::int64_t as64(i128 v) { return static_cast<std::int64_t>(v); }

template <class T> struct tname;
#define C01_TN(T)                        \
  template <> struct tname<T>            \
  {                                      \
    static constexpr char const *v = #T; \
  };
C01_TN(u8) C01_TN(i8) C01_TN(u16) C01_TN(i16) C01_TN(u32) C01_TN(i32) C01_TN(u64) C01_TN(i64)
#undef C01_TN

// the boundary lattice of T (copied from C06): 0, +-small, +-(2^k-1), +-2^k, +-(2^k+1), min, max, min+1, max-1, ...
template <class T> std::vector<T> lattice()
{
  std::set<i128> s;
  auto add = [&](i128 v) {
    if (fits<T>(v))
      s.insert(v);
  };
  for (i128 d : {i128(0), i128(1), i128(2), i128(3), i128(5), i128(7), i128(10), i128(100)})
  {
    add(d);
    add(-d);
  }
  for (int k = 1; k <= 64; ++k)
  {
    i128 p = i128(1) << k;
    for (i128 d : {i128(-1), i128(0), i128(1)})
    {
      add(p + d);
      add(-(p + d));
    }
  }
  add(lo<T>());
  add(lo<T>() + 1);
  add(hi<T>());
  add(hi<T>() - 1);
  add(hi<T>() / 2);
  add(hi<T>() / 2 + 1);
  add(hi<T>() / 3);
  std::vector<T> r;
  for (i128 v : s)
    r.push_back(static_cast<T>(v));
  return r;
}

// every value for 8/16 bit, the lattice otherwise
template <class T> std::vector<T> domain()
{
  if constexpr (sizeof(T) <= 2)
  {
    std::vector<T> r;
    for (i128 v = lo<T>(); v <= hi<T>(); ++v)
      r.push_back(static_cast<T>(v));
    return r;
  }
  else
    return lattice<T>();
}

// at most n elements of v, evenly spread, always containing the first and the last
template <class T> std::vector<T> thin(std::vector<T> const &v, std::size_t n)
{
  if (v.size() <= n)
    return v;
  std::vector<T> r;
  std::size_t const step = (v.size() + n - 2) / (n - 1);
  for (std::size_t i = 0; i < v.size(); i += step)
    r.push_back(v[i]);
  if (r.back() != v.back())
    r.push_back(v.back());
  return r;
}

// ---------------------------------------------------------------- registry bookkeeping
// One object per registered function x instantiation; reports the number of evaluated cases
// and the skip predicate (if any) into the evidence.
struct entry
{
  std::string name;
  std::uint64_t n = 0;
  // primary = false: a further part of an entry that is split over several shards
  explicit entry(std::string nm, char const *skipped = nullptr, bool primary = true) : name(std::move(nm))
  {
    if (primary)
      vrt::count("registry_entries");
    if (skipped)
      vrt::info("skipped:" + name, "\"" + vrt::json_escape(skipped) + "\"");
  }
  entry(entry const &) = delete;
  entry &operator=(entry const &) = delete;
  ~entry() { vrt::count("cases:" + name, n); }
  char const *c_str() const { return name.c_str(); }
  template <class... A> bool begin(A... a)
  {
    if (!vrt::begin(name.c_str(), a...))
      return false;
    ++n;
    return true;
  }
  bool begin_text(std::string const &t)
  {
    if (!vrt::begin_text(name.c_str(), name + "(" + t + ")"))
      return false;
    ++n;
    return true;
  }
};

// ---------------------------------------------------------------- information-only expectations
// Expectations that are stricter than the property text, the function's documentation and its signature (implementation
// details of internal functions, exception-safety levels nobody documents, behaviour towards facets that break the
// codecvt contract, ...) are recorded in the evidence under counters["info:<sig>"] and are never a verdict.
#define C01_INFO(cond, sig)                       \
  do                                              \
  {                                               \
    if (!(cond))                                  \
      ::vrt::count(std::string("info:") + (sig)); \
  } while (0)

// ---------------------------------------------------------------- exception oracle
// Runs f; any escaping exception is the violation "exception:<fn>:<type>".
template <class F> inline bool guarded(std::string const &fn, F &&f)
{
  try
  {
    f();
    return true;
  }
  catch (std::exception const &e)
  {
    vrt::fail("exception:" + fn + ":" + vrt::demangle(typeid(e).name()), e.what());
  }
  catch (...)
  {
    std::type_info const *t = abi::__cxa_current_exception_type();
    vrt::fail("exception:" + fn + ":" + (t ? vrt::demangle(t->name()) : std::string("unknown")), "exception not derived from std::exception");
  }
  return false;
}

// As guarded, but an exception whose dynamic type is exactly Allowed (the documented one) is accepted.
// Returns 1: returned normally, 0: documented exception, -1: violation.
template <class Allowed, class F> inline int guarded_allow(std::string const &fn, F &&f)
{
  try
  {
    f();
    return 1;
  }
  catch (Allowed const &e)
  {
    if (typeid(e) == typeid(Allowed))
      return 0;
    vrt::fail("exception:" + fn + ":" + vrt::demangle(typeid(e).name()), "derived from the documented type only");
  }
  catch (std::exception const &e)
  {
    vrt::fail("exception:" + fn + ":" + vrt::demangle(typeid(e).name()), e.what());
  }
  catch (...)
  {
    std::type_info const *t = abi::__cxa_current_exception_type();
    vrt::fail("exception:" + fn + ":" + (t ? vrt::demangle(t->name()) : std::string("unknown")), "exception not derived from std::exception");
  }
  return -1;
}

// ---------------------------------------------------------------- exact-size heap buffers
// A basic_string_view over a heap block of exactly size() characters without terminator:
// reading one past the end is an ASan heap-buffer-overflow.
template <class Ch> struct exact
{
  std::unique_ptr<Ch[]> p;
  std::size_t n;
  // ASan serves a zero-size request with a one-byte block, so an empty view points at the end of a
  // one-element block instead: begin() == end() is the first poisoned address in both cases.
  explicit exact(std::basic_string<Ch> const &s) : p(new Ch[s.empty() ? 1 : s.size()]), n(s.size())
  {
    if (s.empty())
      p[0] = Ch();
    for (std::size_t i = 0; i < n; ++i)
      p[i] = s[i];
  }
  std::basic_string_view<Ch> view() const { return std::basic_string_view<Ch>(n == 0 ? p.get() + 1 : p.get(), n); }
};

// all strings over alphabet up to length maxlen, shortest first, in alphabet order
template <class Ch> std::vector<std::basic_string<Ch>> all_strings(std::basic_string<Ch> const &alphabet, unsigned maxlen)
{
  std::vector<std::basic_string<Ch>> r{std::basic_string<Ch>{}};
  std::size_t from = 0;
  for (unsigned l = 1; l <= maxlen; ++l)
  {
    std::size_t const to = r.size();
    for (std::size_t i = from; i < to; ++i)
      for (Ch c : alphabet)
        r.push_back(r[i] + c);
    from = to;
  }
  return r;
}

// printable form of a byte / wide string for case descriptors
template <class Ch> std::string show(std::basic_string<Ch> const &s)
{
  std::string r = "\"";
  for (Ch c : s)
  {
    auto const u = static_cast<unsigned long>(static_cast<std::make_unsigned_t<Ch>>(c));
    if (u >= 0x20 && u < 0x7f && c != '"' && c != '\\')
      r += static_cast<char>(u);
    else
      r += vrt::fmt("\\x{%lx}", u);
  }
  return r + "\"";
}

// all sequences over {0,1,2} up to length maxlen
inline std::vector<std::vector<int>> all_seqs(unsigned maxlen)
{
  std::vector<std::vector<int>> r{{}};
  std::size_t from = 0;
  for (unsigned l = 1; l <= maxlen; ++l)
  {
    std::size_t const to = r.size();
    for (std::size_t i = from; i < to; ++i)
      for (int v = 0; v < 3; ++v)
      {
        auto s = r[i];
        s.push_back(v);
        r.push_back(s);
      }
    from = to;
  }
  return r;
}

inline std::string show_seq(std::vector<int> const &s)
{
  std::string r = "[";
  for (std::size_t i = 0; i < s.size(); ++i)
    r += (i ? "," : "") + std::to_string(s[i]);
  return r + "]";
}

// shard registration of the other translation units
void register_containers(); // C01_cont.cpp
void register_fs_options(); // C01_fs.cpp
void register_parse();      // C01_parse.cpp
void register_env();        // C01_env.cpp: locales with user facets, throwing user callbacks
void register_streams();    // C01_stream.cpp: scripted stream buffers, file streams
void register_more();       // C01_more.cpp: time, error, getenv, type_name, args, string helpers, enum helpers
void register_more_casts(); // C01_more2.cpp: dynamic / pointer / value casts
void register_more_math();  // C01_more3.cpp: floating point vector / matrix / interpolation functions, options / parse error output

// For shards in which a defect shows as a hang: every hanging case costs the watchdog time and a restart of the
// shard.  Call at the start of the shard body; after `max` restarts it returns true and marks the shard as stopped
// early (reported as not exhaustive, the violations found so far are kept).  The count lives in the run directory,
// which the driver wipes before every run.
inline bool too_many_restarts(std::string const &tag, int max = 3)
{
  std::string const file = vrt::S().cfg.tmp + "/C01_restarts_" + tag;
  int n = 0;
  if (vrt::S().resume_after > 0)
  {
    if (FILE *f = std::fopen(file.c_str(), "r"))
    {
      if (std::fscanf(f, "%d", &n) != 1)
        n = 0;
      std::fclose(f);
    }
    ++n;
  }
  if (!vrt::S().cfg.replay)
    if (FILE *f = std::fopen(file.c_str(), "w"))
    {
      std::fprintf(f, "%d\n", n);
      std::fclose(f);
    }
  if (n >= max)
  {
    vrt::S().stopped_early = true;
    vrt::count("gave_up_after_restarts");
    return true;
  }
  return false;
}
}

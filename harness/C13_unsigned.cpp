// C13: instantiations for T = unsigned, N = 1,2,3
#include <C13_impl.hpp>
void c13::reg_unsigned() { c13::reg_full<unsigned>(); }

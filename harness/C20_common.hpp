// C20 -- shared parts of the random-wrapper harness (engine E).
//
// Oracle: the statement itself names it -- "exactly the sequence that the wrapped
// standard distribution produces from the wrapped engine with the same parameters,
// re-wrapped".  The reference side therefore uses *only* std:: engines and std::
// distributions that the harness constructs itself from the same numbers, and plain
// static_cast / .get() to un-wrap results.  On top of the lock-step comparison the
// closed-interval bound is checked directly on every draw.
#pragma once
#include <vrt.hpp>

#include <fcppt/make_cref.hpp>
#include <fcppt/make_ref.hpp>
#include <fcppt/make_strong_typedef.hpp>
#include <fcppt/reference_impl.hpp>
#include <fcppt/strong_typedef.hpp>
#include <fcppt/random/make_variate.hpp>
#include <fcppt/random/variate.hpp>
#include <fcppt/random/distribution/basic.hpp>
#include <fcppt/random/distribution/make_basic.hpp>
#include <fcppt/random/distribution/parameters/uniform_int.hpp>
#include <fcppt/random/generator/minstd_rand.hpp>
#include <fcppt/random/generator/mt19937.hpp>
#include <fcppt/type_iso/enum.hpp>
#include <fcppt/type_iso/strong_typedef.hpp>

#include <cmath>
#include <cstdint>
#include <cstring>
#include <limits>
#include <random>
#include <set>
#include <string>
#include <type_traits>
#include <utility>
#include <vector>

namespace c20
{
using i128 = __int128;
using u64 = std::uint64_t;

constexpr int DRAWS = 64;

// ------------------------------------------------------------------ seed set
// every seed in [0,N) (N = 256 quick, 4096 thorough) plus 2^31-1 (== 0 modulo the
// minstd modulus), 2^32 (== 0 after truncation to 32 bit), 2^32+1, 2^63 and the maximum
// of the seed type (2^64-1).  Only valid inside a shard body (the tier is known only after vrt::run
// parsed the command line).
inline std::vector<u64> const &seeds()
{
  static std::vector<u64> const s = [] {
    std::vector<u64> r;
    u64 const n = vrt::thorough() ? 4096U : 256U;
    for (u64 i = 0; i < n; ++i)
      r.push_back(i);
    r.push_back((u64(1) << 31) - 1U);
    r.push_back(u64(1) << 32);
    r.push_back((u64(1) << 32) + 1U); // seeds that need more than 32 bit: the seed type of both engines is 64 bit wide
    r.push_back(u64(1) << 63);
    r.push_back(std::numeric_limits<u64>::max());
    return r;
  }();
  return s;
}

// vrt::begin remembers the function name by pointer: names must live forever
inline char const *intern(std::string const &s)
{
  static std::set<std::string> pool;
  return pool.insert(s).first->c_str();
}

inline std::string str128(i128 v)
{
  if (v == 0)
    return "0";
  bool const neg = v < 0;
  unsigned __int128 u = neg ? static_cast<unsigned __int128>(-(v + 1)) + 1U : static_cast<unsigned __int128>(v);
  std::string r;
  while (u != 0)
  {
    r.insert(r.begin(), static_cast<char>('0' + static_cast<int>(u % 10U)));
    u /= 10U;
  }
  return neg ? "-" + r : r;
}

template <class T> std::string show(T v)
{
  if constexpr (std::is_same_v<T, long double>)
    return vrt::fmt("%.21Lg(%La)", v, v);
  else if constexpr (std::is_floating_point_v<T>)
    return vrt::fmt("%.17g(%a)", static_cast<double>(v), static_cast<double>(v));
  else
    return str128(static_cast<i128>(v));
}

// announce a case with integer arguments of any width (values beyond int64 are
// written out as text so that the descriptor stays readable)
template <class... A> bool announce(char const *fn, A... a)
{
  bool const all_fit = ((static_cast<i128>(a) >= static_cast<i128>(std::numeric_limits<std::int64_t>::min()) &&
                         static_cast<i128>(a) <= static_cast<i128>(std::numeric_limits<std::int64_t>::max())) &&
                        ...);
  if (all_fit)
    return vrt::begin(fn, static_cast<std::int64_t>(a)...);
  std::string t = fn;
  t += "(";
  bool first = true;
  ((t += (first ? "" : ", ") + str128(static_cast<i128>(a)), first = false), ...);
  t += ")";
  return vrt::begin_text(fn, t);
}

template <class T> bool same(T a, T b)
{
  if constexpr (std::is_floating_point_v<T>) // value-exact and distinguishes -0.0 (not memcmp: long double has padding bytes)
    return (a != a && b != b) || (a == b && std::signbit(a) == std::signbit(b));
  else
    return a == b;
}

// ------------------------------------------------------------------ engines
struct eng_minstd
{
  using fc = fcppt::random::generator::minstd_rand;
  using sd = std::minstd_rand;
  static constexpr char const *name = "minstd_rand";
};
struct eng_mt
{
  using fc = fcppt::random::generator::mt19937;
  using sd = std::mt19937;
  static constexpr char const *name = "mt19937";
};
template <class E> typename E::fc::seed fc_seed(u64 s)
{
  return typename E::fc::seed(static_cast<typename E::fc::result_type>(s));
}
template <class E> typename E::sd sd_engine(u64 s)
{
  return typename E::sd(static_cast<typename E::sd::result_type>(s));
}

// ------------------------------------------------------------------ result types
// the harness' own (un)wrapping: plain value, enum (static_cast), strong typedef (.get(), nested)
template <class R, class = void> struct rt;
template <class T> struct rt<T, std::enable_if_t<std::is_arithmetic_v<T>>>
{
  using base = T;
  static T wrap(base v) { return v; }
  static base unwrap(T v) { return v; }
};
template <class T> struct rt<T, std::enable_if_t<std::is_enum_v<T>>>
{
  using base = std::underlying_type_t<T>;
  static T wrap(base v) { return static_cast<T>(v); }
  static base unwrap(T v) { return static_cast<base>(v); }
};
template <class T, class Tag> struct rt<fcppt::strong_typedef<T, Tag>, void>
{
  using base = typename rt<T>::base;
  using type = fcppt::strong_typedef<T, Tag>;
  static type wrap(base v) { return type(rt<T>::wrap(v)); }
  static base unwrap(type const &v) { return rt<T>::unwrap(v.get()); }
};

struct no_two_arg
{
};

// ------------------------------------------------------------------ histories
// A distribution may carry state beyond its parameters (std::normal_distribution caches the
// second value of every generated pair).  Wrapping, copying, moving, reset() and param(set)
// must treat that state exactly like the wrapped std distribution does.  The reference is never
// hand-modelled: the std distribution is driven through the identical history (copy where fcppt
// copies, reset() where fcppt resets, param(x) where fcppt sets parameters) with one std engine
// in lock step with one fcppt generator.  Only for the route variate(gen, d.param()) the
// reference is a FRESH std distribution constructed from the used distribution's param():
// that constructor takes parameters, not a distribution, so no state can travel.
//   A  k = 0..3 direct draws d(gen); then variate(gen,d), make_variate(gen,d),
//      variate(gen,d.param()) draw HIST_N values each; then d itself continues
//   B  after j = 1,3 draws: copy-construct, copy-assign, move-construct, move-assign the
//      distribution and a variate; every copy and the original continue
//   C  after j = 1,3 draws: reset()
//   D  after j = 1,3 draws: param(q)
constexpr int HIST_N = 6;

template <class E, class P, class StdDist>
void history(std::string const &nm, P const &p, StdDist const &rd0, u64 const seed, bool const bounded,
             typename StdDist::result_type const lo, typename StdDist::result_type const hi, P const &q,
             StdDist const &rq0, typename StdDist::result_type const qlo, typename StdDist::result_type const qhi)
{
  using R = typename P::result_type;
  using base = typename StdDist::result_type;
  using D = fcppt::random::distribution::basic<P>;
  using G = typename E::fc;
  using V = fcppt::random::variate<G, D>;

  G g(fc_seed<E>(seed));
  typename E::sd ref = sd_engine<E>(seed);
  bool ok = true;
  int pre = 0; // number of draws before the operation under test (for the message)

  // draw n values from fc() and sd() in lock step
  auto draw_n = [&](char const *what, int const n, auto &&fc, auto &&sd, base const l, base const h) {
    for (int i = 0; ok && i < n; ++i)
    {
      R const x = fc();
      base const w = sd();
      base const v = rt<R>::unwrap(x);
      if (bounded && !(l <= v && v <= h))
      {
        vrt::fail(nm + ":history:" + what + ":out_of_bounds",
                  vrt::fmt("after %d earlier draws, draw %d: %s outside [%s,%s]", pre, i, show(v).c_str(), show(l).c_str(),
                           show(h).c_str()));
        ok = false;
      }
      else if (!same(v, w))
      {
        vrt::fail(nm + ":history:" + what, vrt::fmt("after %d earlier draws, draw %d: got %s, std driven the same way gives %s",
                                                    pre, i, show(v).c_str(), show(w).c_str()));
        ok = false;
      }
    }
  };

  // A: wrap a used distribution
  for (int k = 0; ok && k <= 3; ++k)
  {
    pre = k;
    D d(p);
    StdDist rd(rd0);
    draw_n("direct", k, [&] { return d(g); }, [&] { return rd(ref); }, lo, hi);
    {
      V v(fcppt::make_ref(g), d);
      StdDist rc(rd);
      draw_n("variate(gen,used_distribution)", HIST_N, [&] { return v(); }, [&] { return rc(ref); }, lo, hi);
    }
    {
      auto v = fcppt::random::make_variate(fcppt::make_ref(g), d);
      StdDist rc(rd);
      draw_n("make_variate(gen,used_distribution)", HIST_N, [&] { return v(); }, [&] { return rc(ref); }, lo, hi);
    }
    {
      V v(fcppt::make_ref(g), d.param());
      StdDist rf(rd.param()); // fresh: parameters only
      draw_n("variate(gen,used_distribution.param())", HIST_N, [&] { return v(); }, [&] { return rf(ref); }, lo, hi);
    }
    draw_n("original_after_wrapping", HIST_N, [&] { return d(g); }, [&] { return rd(ref); }, lo, hi);
  }

  // B: copies and moves in the middle of a sequence
  for (int j = 1; ok && j <= 3; j += 2)
  {
    pre = j;
    {
      D d(p);
      StdDist rd(rd0);
      draw_n("direct", j, [&] { return d(g); }, [&] { return rd(ref); }, lo, hi);
      D const c(d);
      StdDist rc(rd);
      D a(q);
      StdDist ra(rq0);
      a = d;
      ra = rd;
      D t1(d);
      D m(std::move(t1));
      StdDist rm(rd);
      D ma(q);
      D t2(d);
      ma = std::move(t2);
      StdDist rma(rq0);
      rma = rd;
      VRT_CHECK(c == d && a == d && m == d && ma == d, nm + ":history:distribution_copy:equality",
                "a copy of a distribution used %d times does not compare equal to it", j);
      D cc(c); // c is const: draw from a copy of the copy as well
      draw_n("distribution_copy_constructed", HIST_N, [&] { return cc(g); }, [&] { return rc(ref); }, lo, hi);
      draw_n("distribution_copy_assigned", HIST_N, [&] { return a(g); }, [&] { return ra(ref); }, lo, hi);
      draw_n("distribution_move_constructed", HIST_N, [&] { return m(g); }, [&] { return rm(ref); }, lo, hi);
      draw_n("distribution_move_assigned", HIST_N, [&] { return ma(g); }, [&] { return rma(ref); }, lo, hi);
      draw_n("distribution_original_after_copies", HIST_N, [&] { return d(g); }, [&] { return rd(ref); }, lo, hi);
    }
    {
      V v(fcppt::make_ref(g), p);
      StdDist rv(rd0);
      draw_n("variate_direct", j, [&] { return v(); }, [&] { return rv(ref); }, lo, hi);
      V vc(v);
      StdDist rc(rv);
      V t1(v);
      V vm(std::move(t1));
      StdDist rm(rv);
      draw_n("variate_copy_constructed", HIST_N, [&] { return vc(); }, [&] { return rc(ref); }, lo, hi);
      draw_n("variate_move_constructed", HIST_N, [&] { return vm(); }, [&] { return rm(ref); }, lo, hi);
      // Assignability of a variate is not documented (it follows from its members today): exercised only while it
      // exists, so that a variate that becomes non-assignable does not break the check.  If it exists it must have
      // value semantics (class B).
      if constexpr (std::is_copy_assignable_v<V> && std::is_move_assignable_v<V>)
      {
        V va(fcppt::make_ref(g), q);
        StdDist ra(rq0);
        va = v;
        ra = rv;
        V vma(fcppt::make_ref(g), q);
        V t2(v);
        vma = std::move(t2);
        StdDist rma(rq0);
        rma = rv;
        draw_n("variate_copy_assigned", HIST_N, [&] { return va(); }, [&] { return ra(ref); }, lo, hi);
        draw_n("variate_move_assigned", HIST_N, [&] { return vma(); }, [&] { return rma(ref); }, lo, hi);
      }
      else
        vrt::count("info:variate_not_assignable");
      draw_n("variate_original_after_copies", HIST_N, [&] { return v(); }, [&] { return rv(ref); }, lo, hi);
    }
  }

  // C: reset() in the middle of a sequence, D: param(q) in the middle of a sequence
  for (int j = 1; ok && j <= 3; j += 2)
  {
    pre = j;
    {
      D d(p);
      StdDist rd(rd0);
      draw_n("direct", j, [&] { return d(g); }, [&] { return rd(ref); }, lo, hi);
      d.reset();
      rd.reset();
      draw_n("reset", HIST_N, [&] { return d(g); }, [&] { return rd(ref); }, lo, hi);
    }
    {
      D d(p);
      StdDist rd(rd0);
      draw_n("direct", j, [&] { return d(g); }, [&] { return rd(ref); }, lo, hi);
      d.param(q);
      rd.param(rq0.param());
      draw_n("param_set", HIST_N, [&] { return d(g); }, [&] { return rd(ref); }, qlo, qhi);
      // Information only (audit: class C).  Equality of the wrapped object's *internal state* with a std distribution
      // driven the same way is not promised anywhere; what is promised -- the sequence after param(set) -- is the
      // "param_set" comparison above.
      if (!(d.distribution() == rd))
        vrt::count("info:" + nm + ":history:param_set:state");
    }
  }
  if (ok)
  {
    auto const raw = g();
    auto const raw_want = ref();
    if (raw != raw_want)
      vrt::fail(nm + ":history:generator_state", "generator state differs from the std engine after the histories");
  }
}

// ------------------------------------------------------------------ the lock-step comparison
// One case = one (parameter set, seed).  The reference sequence comes from a std engine
// and the std distribution `rd0`; the fcppt side is run through every way of drawing:
//   A  basic(param_type)            -> d(gen)
//   A2 basic(t1, t2)                -> d(gen)             (if mk2 is given)
//   B  make_variate(ref, make_basic(param))   -> v()
//   C  variate(ref, param_type)     -> v()
//   P1 basic(basic(param).param())  -> d(gen)             (getter round trip)
//   P2 basic(P::convert_to(std dist)) -> d(gen)
//   W1 basic(q) -> d(gen, param)                          (per-call parameters, q = another parameter set)
//   W2 basic(q) -> d(gen, param) interleaved with d(gen)
//   H  the histories of history<>() above (used distributions wrapped / copied / moved / reset / re-parameterised)
// Each with its own freshly seeded fcppt generator.  After DRAWS draws the generator
// itself must be in the same state as the std engine (next raw number equal): a variate
// that drew from a copy of the generator would show here.
template <class E, class P, class StdDist, class Mk2>
void lockstep(std::string const &nm, P const &p, StdDist const &rd0, u64 const seed, bool const bounded,
              typename StdDist::result_type const lo, typename StdDist::result_type const hi, Mk2 const &mk2,
              P const &q, StdDist const &rq0, typename StdDist::result_type const qlo,
              typename StdDist::result_type const qhi, int const reset_at = -1)
{
  using R = typename P::result_type;
  using base = typename StdDist::result_type;
  using D = fcppt::random::distribution::basic<P>;
  using G = typename E::fc;
  static_assert(std::is_same_v<base, typename rt<R>::base>, "harness: reference base type");
  static_assert(std::is_same_v<typename D::result_type, R>, "result type of basic");
  static_assert(std::is_same_v<typename fcppt::random::variate<G, D>::result_type, R>, "result type of variate");

  base want[DRAWS];
  typename E::sd ref = sd_engine<E>(seed);
  StdDist rd(rd0);
  for (int i = 0; i < DRAWS; ++i)
  {
    if (i == reset_at)
      rd.reset();
    want[i] = rd(ref);
  }
  auto const next_raw = ref();

  auto run = [&](char const *path, auto &&draw, G &g) {
    for (int i = 0; i < DRAWS; ++i)
    {
      R const x = draw(i);
      base const v = rt<R>::unwrap(x);
      if (bounded && !(lo <= v && v <= hi))
      {
        vrt::fail(nm + ":out_of_bounds", vrt::fmt("%s draw %d: %s outside [%s,%s]", path, i, show(v).c_str(),
                                                  show(lo).c_str(), show(hi).c_str()));
        return;
      }
      if (!same(v, want[i]))
      {
        vrt::fail(nm + ":sequence", vrt::fmt("%s draw %d: got %s, std gives %s", path, i, show(v).c_str(),
                                             show(want[i]).c_str()));
        return;
      }
    }
    auto const raw = g();
    if (raw != next_raw)
      vrt::fail(nm + ":generator_state", vrt::fmt("%s: generator after %d draws gives %s, std engine %s", path, DRAWS,
                                                  show(raw).c_str(), show(next_raw).c_str()));
  };

  {
    G g(fc_seed<E>(seed));
    D d(p);
    D const d2(p);
    VRT_CHECK(d == d2 && !(d != d2), nm + ":equality", "two distributions from the same parameters differ");
    VRT_CHECK(same(rt<R>::unwrap(d.min()), rd0.min()) && same(rt<R>::unwrap(d.max()), rd0.max()), nm + ":min_max",
              "min()/max() = %s/%s, std %s/%s", show(rt<R>::unwrap(d.min())).c_str(),
              show(rt<R>::unwrap(d.max())).c_str(), show(rd0.min()).c_str(), show(rd0.max()).c_str());
    VRT_CHECK(d.distribution().param() == rd0.param(), nm + ":wrapped_param",
              "wrapped distribution does not carry the requested parameters");
    // param() getter: the parameters read back are the ones put in (observed through
    // convert_from(), whose correctness is what the wrapped_param check above establishes)
    static_assert(std::is_same_v<decltype(d2.param()), P>, "param() returns the parameters class");
    VRT_CHECK(d2.param().convert_from() == rd0.param(), nm + ":param_getter",
              "param() of a fresh distribution does not return the parameters it was built from");
    // convert_to: std distribution -> parameters class
    VRT_CHECK(P::convert_to(rd0).convert_from() == rd0.param(), nm + ":convert_to",
              "convert_to(std distribution) does not carry the distribution's parameters");
    run(
        "basic(param)",
        [&](int const i) {
          if (i == reset_at)
            d.reset();
          return d(g);
        },
        g);
  }
  if (reset_at >= 0)
    return; // variates have no reset()
  if constexpr (!std::is_same_v<Mk2, no_two_arg>)
  {
    G g(fc_seed<E>(seed));
    D d(mk2());
    run(
        "basic(t1,t2)", [&](int) { return d(g); }, g);
  }
  {
    G g(fc_seed<E>(seed));
    auto v = fcppt::random::make_variate(fcppt::make_ref(g), fcppt::random::distribution::make_basic(p));
    static_assert(std::is_same_v<decltype(v), fcppt::random::variate<G, D>>);
    run(
        "make_variate(make_basic(param))", [&](int) { return v(); }, g);
  }
  {
    G g(fc_seed<E>(seed));
    fcppt::random::variate<G, D> v(fcppt::make_ref(g), p);
    run(
        "variate(gen,param)", [&](int) { return v(); }, g);
  }
  // parameters that went through the "to" direction must describe the same distribution
  {
    G g(fc_seed<E>(seed));
    D const src(p);
    D d(src.param());
    run(
        "basic(basic(param).param())", [&](int) { return d(g); }, g);
  }
  {
    G g(fc_seed<E>(seed));
    D d(P::convert_to(rd0));
    run(
        "basic(convert_to(std distribution))", [&](int) { return d(g); }, g);
  }
  // operator()(rng, param): a distribution that *stores* the other parameter set q draws with
  // the per-call parameters p -- reference: std_dist(q)(engine, std_param(p)).  Once for every
  // draw, once interleaved with plain draws (which must still use q).  Afterwards the stored
  // parameters, min() and max() are still those of q, and param(set) + param() round-trips.
  auto with_param = [&](char const *path, bool const interleave) {
    typename E::sd ref2 = sd_engine<E>(seed);
    StdDist rq(rq0);
    G g(fc_seed<E>(seed));
    D d(q);
    for (int i = 0; i < DRAWS; ++i)
    {
      bool const per_call = !interleave || (i * 5 + i / 3) % 3 != 0;
      base const w = per_call ? rq(ref2, rd0.param()) : rq(ref2);
      R const x = per_call ? d(g, p) : d(g);
      base const v = rt<R>::unwrap(x);
      base const l = per_call ? lo : qlo, h = per_call ? hi : qhi;
      if (bounded && !(l <= v && v <= h))
      {
        vrt::fail(nm + ":draw_with_param:out_of_bounds",
                  vrt::fmt("%s draw %d (%s): %s outside [%s,%s]", path, i, per_call ? "per-call parameters" : "stored parameters",
                           show(v).c_str(), show(l).c_str(), show(h).c_str()));
        return;
      }
      if (!same(v, w))
      {
        vrt::fail(nm + ":draw_with_param:sequence",
                  vrt::fmt("%s draw %d (%s): got %s, std gives %s", path, i, per_call ? "per-call parameters" : "stored parameters",
                           show(v).c_str(), show(w).c_str()));
        return;
      }
    }
    VRT_CHECK(d.param().convert_from() == rq0.param() && d.distribution().param() == rq0.param() &&
                  same(rt<R>::unwrap(d.min()), rq0.min()) && same(rt<R>::unwrap(d.max()), rq0.max()),
              nm + ":draw_with_param:stored_param_changed", "%s: stored parameters differ after per-call draws", path);
    auto const raw = g();
    auto const raw_want = ref2();
    if (raw != raw_want)
      vrt::fail(nm + ":draw_with_param:generator_state", vrt::fmt("%s: generator state differs after %d draws", path, DRAWS));
    d.param(p);
    VRT_CHECK(d.param().convert_from() == rd0.param(), nm + ":param_getter_after_set",
              "%s: param() after param(set) does not return the parameters that were set", path);
  };
  with_param("d(q)(gen,p) every draw", false);
  with_param("d(q)(gen,p) interleaved with d(gen)", true);
  history<E>(nm, p, rd0, seed, bounded, lo, hi, q, rq0, qlo, qhi);
}

// "reach both ends": over the whole seed set (seeds in order, DRAWS draws each, stops
// as soon as both ends were seen) the distribution must produce lo and hi.
template <class E, class P, class base> void ends_case(std::string const &nm, P const &p, base const lo, base const hi)
{
  using R = typename P::result_type;
  using D = fcppt::random::distribution::basic<P>;
  using G = typename E::fc;
  char const *const fn = intern(nm + ":ends");
  if (!announce(fn, lo, hi))
    return;
  vrt::nontrivial(lo < hi);
  bool seen_lo = false, seen_hi = false;
  for (u64 const seed : seeds())
  {
    G g(fc_seed<E>(seed));
    D d(p);
    for (int i = 0; i < DRAWS && !(seen_lo && seen_hi); ++i)
    {
      base const v = rt<R>::unwrap(d(g));
      seen_lo = seen_lo || v == lo;
      seen_hi = seen_hi || v == hi;
    }
    if (seen_lo && seen_hi)
      break;
  }
  VRT_CHECK(seen_lo, nm + ":low_end_never_reached", "%s never drawn over the seed set", show(lo).c_str());
  VRT_CHECK(seen_hi, nm + ":high_end_never_reached", "%s never drawn over the seed set", show(hi).c_str());
}

// ------------------------------------------------------------------ uniform_int over a list of intervals
template <class E, class R>
void uniform_int_family(std::string const &rname,
                        std::vector<std::pair<typename rt<R>::base, typename rt<R>::base>> const &ivs,
                        unsigned const part, unsigned const nparts)
{
  using base = typename rt<R>::base;
  using P = fcppt::random::distribution::parameters::uniform_int<R>;
  static_assert(std::is_same_v<typename P::base_type, base>, "fcppt base_type of the result type");
  static_assert(std::is_same_v<typename P::distribution, std::uniform_int_distribution<base>>, "wrapped distribution");
  std::string const nm = "uniform_int<" + rname + "," + E::name + ">";
  char const *const fn = intern(nm);
  for (std::size_t k = 0; k < ivs.size(); ++k)
  {
    if (k % nparts != part)
      continue;
    if (vrt::out_of_time())
      return;
    base const a = ivs[k].first, b = ivs[k].second;
    // the "other" parameter set stored in the distribution while drawing with per-call parameters
    base const qa = ivs[(k + 7) % ivs.size()].first, qb = ivs[(k + 7) % ivs.size()].second;
    for (u64 const seed : seeds())
    {
      if (!announce(fn, a, b, seed))
        continue;
      vrt::nontrivial(a < b);
      vrt::maybe_sample();
      P const p{typename P::min(rt<R>::wrap(a)), typename P::max(rt<R>::wrap(b))};
      P const q{typename P::min(rt<R>::wrap(qa)), typename P::max(rt<R>::wrap(qb))};
      lockstep<E>(
          nm, p, std::uniform_int_distribution<base>(a, b), seed, true, a, b,
          [&] {
            return fcppt::random::distribution::basic<P>(typename P::min(rt<R>::wrap(a)), typename P::max(rt<R>::wrap(b)));
          },
          q, std::uniform_int_distribution<base>(qa, qb), qa, qb);
    }
    if (static_cast<i128>(b) - static_cast<i128>(a) <= 16)
    {
      P const p{typename P::min(rt<R>::wrap(a)), typename P::max(rt<R>::wrap(b))};
      ends_case<E>(nm, p, a, b);
    }
  }
}

// parameters -> std param_type -> parameters is the identity (seed independent): for every pair
// a <= b of `values`, convert_from() carries exactly (a,b), convert_to(std distribution) converted
// back again carries exactly (a,b), and so do param() of a distribution built from the parameters
// and param() after param(set).
template <class R> void roundtrip_uniform_int(std::string const &rname, std::vector<typename rt<R>::base> const &values)
{
  using base = typename rt<R>::base;
  using P = fcppt::random::distribution::parameters::uniform_int<R>;
  using SD = std::uniform_int_distribution<base>;
  using D = fcppt::random::distribution::basic<P>;
  std::string const nm = "roundtrip<uniform_int<" + rname + ">>";
  char const *const fn = intern(nm);
  for (base const a : values)
    for (base const b : values)
    {
      if (!(a <= b))
        continue;
      if (!announce(fn, a, b))
        continue;
      vrt::nontrivial(a < b);
      vrt::maybe_sample();
      P const p{typename P::min(rt<R>::wrap(a)), typename P::max(rt<R>::wrap(b))};
      auto const sp = p.convert_from();
      VRT_CHECK(sp.a() == a && sp.b() == b, nm + ":convert_from", "convert_from gives [%s,%s]", show(sp.a()).c_str(), show(sp.b()).c_str());
      P const back(P::convert_to(SD(a, b)));
      auto const sp2 = back.convert_from();
      VRT_CHECK(sp2.a() == a && sp2.b() == b, nm + ":convert_to", "convert_to(std).convert_from() gives [%s,%s]", show(sp2.a()).c_str(),
                show(sp2.b()).c_str());
      D d(p);
      auto const sp3 = d.param().convert_from();
      VRT_CHECK(sp3.a() == a && sp3.b() == b && rt<R>::unwrap(d.min()) == a && rt<R>::unwrap(d.max()) == b, nm + ":param_getter",
                "param() reports [%s,%s]", show(sp3.a()).c_str(), show(sp3.b()).c_str());
      D d2(P{typename P::min(rt<R>::wrap(values.front())), typename P::max(rt<R>::wrap(values.front()))});
      d2.param(p);
      auto const sp4 = d2.param().convert_from();
      VRT_CHECK(sp4.a() == a && sp4.b() == b, nm + ":param_getter_after_set", "param() after param(set) reports [%s,%s]",
                show(sp4.a()).c_str(), show(sp4.b()).c_str());
    }
}

// boundary list of an integer type
template <class T> std::vector<T> boundary_values()
{
  i128 const lo = std::numeric_limits<T>::min(), hi = std::numeric_limits<T>::max();
  std::set<i128> s;
  for (i128 v : {lo, lo + 1, lo / 2, i128(-8), i128(-1), i128(0), i128(1), i128(8), hi / 2, hi / 2 + 1, hi - 1, hi})
    if (v >= lo && v <= hi)
      s.insert(v);
  std::vector<T> r;
  for (i128 v : s)
    r.push_back(static_cast<T>(v));
  return r;
}

// all [a,b] with -8 <= a <= b <= 8 (signed) / 0 <= a <= b <= 16 (unsigned)
template <class T> std::vector<std::pair<T, T>> small_intervals()
{
  std::vector<std::pair<T, T>> r;
  int const lo = std::is_signed_v<T> ? -8 : 0, hi = std::is_signed_v<T> ? 8 : 16;
  for (int a = lo; a <= hi; ++a)
    for (int b = a; b <= hi; ++b)
      r.emplace_back(static_cast<T>(a), static_cast<T>(b));
  return r;
}

// intervals touching the limits of T
template <class T> std::vector<std::pair<T, T>> limit_intervals()
{
  i128 const lo = std::numeric_limits<T>::min(), hi = std::numeric_limits<T>::max();
  std::set<std::pair<i128, i128>> s;
  auto add = [&](i128 a, i128 b) {
    if (a >= lo && b <= hi && a <= b)
      s.emplace(a, b);
  };
  add(lo, lo);
  add(lo, lo + 1);
  add(lo, lo + 16);
  add(lo + 1, lo + 2);
  add(hi - 16, hi);
  add(hi - 1, hi);
  add(hi, hi);
  add(hi - 2, hi - 1);
  add(lo, hi);
  add(lo, hi - 1);
  add(lo + 1, hi);
  add(lo + 1, hi - 1);
  add(lo, 0);
  add(0, hi);
  add(-1, hi);
  add(lo, 1);
  add(lo, -1);
  add(1, hi);
  add(lo / 2, hi / 2);
  add(hi / 2, hi / 2 + 1);
  std::vector<std::pair<T, T>> r;
  for (auto const &pr : s)
    r.emplace_back(static_cast<T>(pr.first), static_cast<T>(pr.second));
  return r;
}

template <class T> std::vector<std::pair<T, T>> all_intervals()
{
  auto r = small_intervals<T>();
  for (auto const &pr : limit_intervals<T>())
    r.push_back(pr);
  return r;
}

void register_plain();     // C20.cpp
void register_unsigned();  // C20_unsigned.cpp
void register_wrapped();   // C20_wrapped.cpp
void register_enum();      // C20_enum.cpp
void register_real();      // C20_real.cpp
void register_normal();    // C20_normal.cpp
void register_user();      // C20_user.cpp
void register_container(); // C20_container.cpp
}

// C17 compile probe: strong_typedef over a user-defined class whose operators are user-defined too -- "strong_typedef
// arithmetic, bitwise, assignment and comparison operators give exactly the wrapped result of the same operator on the
// underlying values" holds for any underlying type that has the operator, not only for built-in integers
// (C17_order.cpp uses such a type).  If a library change makes these ill-formed (say, by casting the underlying value
// to an integer type), this probe is the verdict instead of a harness build error.  Must compile; never run.
#include <fcppt/strong_typedef.hpp>
#include <fcppt/strong_typedef_arithmetic.hpp>
#include <fcppt/strong_typedef_assignment.hpp>
#include <fcppt/strong_typedef_bitwise.hpp>
#include <fcppt/strong_typedef_comparison.hpp>

namespace
{
struct num
{
  int v;
};
num operator+(num const &a, num const &b) { return num{a.v + b.v}; }
num operator-(num const &a, num const &b) { return num{a.v - b.v}; }
num operator*(num const &a, num const &b) { return num{a.v * b.v}; }
num operator&(num const &a, num const &b) { return num{a.v & b.v}; }
num operator|(num const &a, num const &b) { return num{a.v | b.v}; }
num operator^(num const &a, num const &b) { return num{a.v ^ b.v}; }
num operator-(num const &a) { return num{-a.v}; }
num operator~(num const &a) { return num{~a.v}; }
bool operator==(num const &a, num const &b) { return a.v == b.v; }
bool operator<(num const &a, num const &b) { return a.v < b.v; }
struct num_tag;
using st = fcppt::strong_typedef<num, num_tag>;
}

int c17_probe_user_ops(st const &a, st const &b)
{
  st const r[] = {a + b, a - b, a * b, a & b, a | b, a ^ b, -a, ~a};
  int n = 0;
  for (st const &x : r)
    n += x.get().v;
  return n + int(a == b) + int(a < b) + int(a != b);
}

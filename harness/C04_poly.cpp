// C04 (part 5) -- class hierarchies: the places where a combinator names a *static* type and an object of
// a derived class can flow through it.
//   either::try_call<Exception>: the thrown object is of a class derived from Exception (user hierarchy with a
//     virtual payload, std::exception hierarchy with what()); to_exception must receive the very object thrown
//     (dynamic type, payload, no copy); unrelated exception types propagate unchanged; the success path never
//     calls to_exception; the function is called exactly once.
//   optional::to_exception / either::to_exception: the exception object returned by make_exception is thrown
//     with its own (derived) type.
//   variant<Base, Derived> (both orders): match / apply / to_optional / holds_type / compare never treat a held
//     Derived as a Base.
#include "C04_common.hpp"

#include <fcppt/either/object_impl.hpp>
#include <fcppt/either/to_exception.hpp>
#include <fcppt/either/try_call.hpp>
#include <fcppt/optional/object_impl.hpp>
#include <fcppt/optional/to_exception.hpp>
#include <fcppt/variant/apply.hpp>
#include <fcppt/variant/compare.hpp>
#include <fcppt/variant/comparison.hpp>
#include <fcppt/variant/holds_type.hpp>
#include <fcppt/variant/match.hpp>
#include <fcppt/variant/object_impl.hpp>
#include <fcppt/variant/to_optional.hpp>

#include <exception>
#include <new>
#include <stdexcept>
#include <typeinfo>

using namespace c04;

namespace
{
using OD = fcppt::optional::object<D>;
using EI = fcppt::either::object<E, D>;
D mk_d(int c) { return D{c}; }
EI mk_ei(int c) { return c < 2 ? EI{E{c}} : EI{D{c - 2}}; }
int code(EI const &e)
{
  if (e.has_success() == e.has_failure())
    return -1000;
  return e.has_success() ? 2 + e.get_success_unsafe().v : e.get_failure_unsafe().v;
}
std::string sh(int c) { return show_eith(c, 2); }

// ------------------------------------------------------------------ a user hierarchy
int g_copies = 0; // copy/move constructions of any object of the hierarchy since the last reset

std::string long_text(int c) { return "derived-error-payload-" + std::to_string(c) + "-" + std::string(48, static_cast<char>('k' + c)); }

struct base_error
{
  int base_mark = 7;
  base_error() = default;
  base_error(base_error const &o) : base_mark(o.base_mark) { ++g_copies; }
  base_error(base_error &&o) noexcept : base_mark(o.base_mark) { ++g_copies; }
  base_error &operator=(base_error const &) = default;
  virtual ~base_error() = default;
  virtual int kind() const { return 0; }
  virtual int payload() const { return -1; }
};
struct derived_error : base_error
{
  int c;
  std::string text;
  explicit derived_error(int x) : c(x), text(long_text(x)) {}
  int kind() const override { return 1; }
  int payload() const override { return text == long_text(c) ? c : -2; }
};
struct derived2_error : derived_error
{
  explicit derived2_error(int x) : derived_error(x) {}
  int kind() const override { return 2; }
};
struct other_exc
{
  int code;
  std::string text;
};

// index of (dynamic class, payload) as seen through a base_error const&: 0 = base, 1..3 = derived(c), 4..6 = derived2(c)
int observe(base_error const &e)
{
  int const k = e.kind();
  if (k == 0)
    return (typeid(e) == typeid(base_error) && e.payload() == -1 && e.base_mark == 7) ? 0 : -1;
  int const c = e.payload();
  if (c < 0 || c > 2 || e.base_mark != 7)
    return -1;
  if (k == 1)
    return (typeid(e) == typeid(derived_error) && dynamic_cast<derived_error const *>(&e) && !dynamic_cast<derived2_error const *>(&e)) ? 1 + c : -1;
  if (k == 2)
    return (typeid(e) == typeid(derived2_error) && dynamic_cast<derived2_error const *>(&e)) ? 4 + c : -1;
  return -1;
}

// what the function does: 0..2 return D; 3 throw base; 4..6 throw derived(c); 7..9 throw derived2(c);
// 10 throw int; 11 throw other_exc; 12 throw std::runtime_error (all three unrelated to the hierarchy)
constexpr int NKINDS = 13;
char const *kind_text(int k)
{
  static char const *const t[NKINDS] = {"returns 0",       "returns 1",           "returns 2",          "throws base_error",   "throws derived_error(0)",
                                        "throws derived_error(1)", "throws derived_error(2)", "throws derived2_error(0)", "throws derived2_error(1)", "throws derived2_error(2)",
                                        "throws int 5",    "throws other_exc",    "throws std::runtime_error"};
  return t[k];
}
[[noreturn]] void do_throw(int kind)
{
  switch (kind)
  {
  case 3: throw base_error{};
  case 4:
  case 5:
  case 6: throw derived_error{kind - 4};
  case 7:
  case 8:
  case 9: throw derived2_error{kind - 7};
  case 10: throw 5;
  case 11: throw other_exc{7, long_text(7)};
  default: throw std::runtime_error(long_text(9));
  }
}
// observation index of the object thrown by `kind` (-1: not of the hierarchy)
int thrown_index(int kind) { return kind == 3 ? 0 : (kind >= 4 && kind <= 6) ? 1 + (kind - 4) : (kind >= 7 && kind <= 9) ? 4 + (kind - 7) : -1; }

// Exc: the static type named in try_call<Exc>; caught(kind) says whether an object thrown by kind is-a Exc
template <class Exc> void try_call_user(char const *exc_name, bool (*caught)(int))
{
  static std::string const name = std::string("either::try_call<") + exc_name + "><kind,translate>";
  for (int kind = 0; kind < NKINDS; ++kind)
    for (int tr = 0; tr < 128; ++tr)
    {
      if (!vrt::begin(name.c_str(), kind, tr))
        continue;
      tab const t = decode(tr, 2, 7);
      auto desc = [&]
      {
        return std::string("either::try_call<") + exc_name + ">(function that " + kind_text(kind) +
               ", to_exception = table over the observed (dynamic class, payload) [base, derived 0..2, derived2 0..2] " + show_tab(t, show_int) + ")";
      };
      bool const throws = kind >= 3;
      bool const is_caught = throws && caught(kind);
      vrt::nontrivial(is_caught && thrown_index(kind) > 0);
      SAMPLE();
      probe pf, pt;
      int copies_at_translate = -1;
      void const *translated_object = nullptr;
      auto const fn = [&]() -> D
      {
        pf.hit(kind);
        if (kind >= 3)
        {
          g_copies = 0;
          do_throw(kind);
        }
        return D{kind};
      };
      auto const translate = [&](Exc const &ex) -> E
      {
        copies_at_translate = g_copies;
        translated_object = &ex;
        int const idx = observe(ex);
        pt.hit(idx, idx >= 0);
        return E{t[idx]};
      };
      int got = -1;
      int propagated = 0; // 1: base_error family, 2: int, 3: other_exc, 4: runtime_error
      int propagated_index = -2;
      try
      {
        EI const r = fcppt::either::try_call<Exc>(fn, translate);
        got = code(r);
      }
      catch (base_error const &ex)
      {
        propagated = 1;
        propagated_index = observe(ex);
      }
      catch (int const v)
      {
        propagated = 2;
        propagated_index = v == 5 ? 0 : -1;
      }
      catch (other_exc const &ex)
      {
        propagated = 3;
        propagated_index = (ex.code == 7 && ex.text == long_text(7)) ? 0 : -1;
      }
      catch (std::runtime_error const &ex)
      {
        propagated = 4;
        propagated_index = ex.what() == long_text(9) ? 0 : -1;
      }
      CK(pf.is(1, kind), "either::try_call:function_calls", "function %s", pf.show().c_str());
      if (!throws)
      {
        CK(got == 2 + kind && propagated == 0, "either::try_call:returned", "got %s", sh(got).c_str());
        CK(pt.is(0), "either::try_call:to_exception_called_on_success", "to_exception %s", pt.show().c_str());
      }
      else if (is_caught)
      {
        int const idx = thrown_index(kind);
        CK(propagated == 0, "either::try_call:not_caught", "an exception of a class derived from Exception escaped");
        CK(pt.calls == 1, "either::try_call:to_exception_calls", "to_exception %s", pt.show().c_str());
        // the documented result is to_exception(e) for the thrown e: the dynamic class and the derived payload decide
        CK(pt.calls != 1 || pt.args[0] == idx, "either::try_call:dynamic_type", "to_exception saw object #%d, the function threw #%d (0 base, 1-3 derived, 4-6 derived2, -1 damaged)",
           pt.calls ? pt.args[0] : -9, idx);
        CK(got == t[idx], "either::try_call:caught", "got %s want failure %d", sh(got).c_str(), t[idx]);
        // copies of the exception object between throw and to_exception are counted, not judged: the documentation only
        // fixes what to_exception sees (a copy at the static type is caught by dynamic_type above whenever it matters)
        if (copies_at_translate != 0)
          vrt::count("try_call:exception_object_copies", static_cast<std::uint64_t>(copies_at_translate));
      }
      else
      {
        int const want_prop = kind <= 9 ? 1 : kind - 8;
        CK(propagated == want_prop && pt.is(0) && got == -1, "either::try_call:foreign_exception", "an exception that is not an Exception did not propagate (got %s, handler %d, to_exception %s)",
           sh(got).c_str(), propagated, pt.show().c_str());
        CK(propagated != want_prop || propagated_index == (kind <= 9 ? thrown_index(kind) : 0), "either::try_call:foreign_exception_changed", "the propagated exception is not the thrown one");
      }
    }
}

// ------------------------------------------------------------------ std::exception hierarchy
struct user_std_error : std::exception
{
  std::string msg;
  explicit user_std_error(std::string m) : msg(std::move(m)) {}
  char const *what() const noexcept override { return msg.c_str(); }
};
struct user_runtime_error : std::runtime_error
{
  int extra;
  user_runtime_error(std::string const &m, int e) : std::runtime_error(m), extra(e) {}
};
std::string message(int m) { return m == 0 ? std::string() : m == 1 ? std::string("short") : "a message that does not fit into the small string buffer: " + std::string(40, 'z'); }
// thrown classes: 0 runtime_error, 1 out_of_range, 2 user_std_error, 3 user_runtime_error(extra 41), 4 logic_error
[[noreturn]] void throw_std(int cls, int m)
{
  switch (cls)
  {
  case 0: throw std::runtime_error(message(m));
  case 1: throw std::out_of_range(message(m));
  case 2: throw user_std_error(message(m));
  case 3: throw user_runtime_error(message(m), 41);
  default: throw std::logic_error(message(m));
  }
}
char const *std_cls_name(int c)
{
  static char const *const n[] = {"std::runtime_error", "std::out_of_range", "user_std_error : std::exception", "user_runtime_error : std::runtime_error", "std::logic_error"};
  return n[c];
}
std::string classify(std::exception const &e)
{
  std::string r;
  if (auto const *p = dynamic_cast<user_runtime_error const *>(&e))
    r = "user_runtime_error/" + std::to_string(p->extra);
  else if (dynamic_cast<std::out_of_range const *>(&e))
    r = "out_of_range";
  else if (dynamic_cast<std::logic_error const *>(&e))
    r = "logic_error";
  else if (dynamic_cast<std::runtime_error const *>(&e))
    r = "runtime_error";
  else if (dynamic_cast<user_std_error const *>(&e))
    r = "user_std_error";
  else
    r = "plain std::exception";
  return r + "|" + e.what();
}
std::string expected_class(int cls, int m)
{
  static char const *const n[] = {"runtime_error", "out_of_range", "user_std_error", "user_runtime_error/41", "logic_error"};
  return std::string(n[cls]) + "|" + message(m);
}

template <class Exc> void try_call_std(char const *exc_name, bool (*caught)(int))
{
  using ES = fcppt::either::object<std::string, D>;
  static std::string const name = std::string("either::try_call<") + exc_name + "><thrown class,message>";
  for (int cls = 0; cls < 5; ++cls)
    for (int m = 0; m < 3; ++m)
    {
      if (!vrt::begin(name.c_str(), cls, m))
        continue;
      auto desc = [&]
      { return std::string("either::try_call<") + exc_name + ">(function that throws " + std_cls_name(cls) + "(\"" + message(m) + "\"), e -> class-of(e)|e.what())"; };
      vrt::nontrivial(caught(cls));
      SAMPLE();
      probe pf, pt;
      auto const fn = [&]() -> D
      {
        pf.hit(cls);
        throw_std(cls, m);
      };
      auto const translate = [&](Exc const &ex) -> std::string
      {
        pt.hit(0);
        return classify(ex);
      };
      std::string got = "<nothing>";
      std::string propagated = "<none>";
      try
      {
        ES const r = fcppt::either::try_call<Exc>(fn, translate);
        got = r.has_failure() ? r.get_failure_unsafe() : "<success>";
      }
      catch (std::exception const &ex)
      {
        propagated = classify(ex);
      }
      std::string const want = expected_class(cls, m);
      CK(pf.is(1, cls), "either::try_call:function_calls", "function %s", pf.show().c_str());
      if (caught(cls))
      {
        CK(got == want && propagated == "<none>", "either::try_call:dynamic_type", "failure is \"%s\", to_exception(e) for the thrown e is \"%s\" (escaped: %s)", got.c_str(),
           want.c_str(), propagated.c_str());
        CK(pt.calls == 1, "either::try_call:to_exception_calls", "to_exception %s", pt.show().c_str());
      }
      else
      {
        CK(propagated == want && pt.is(0) && got == "<nothing>", "either::try_call:foreign_exception", "propagated \"%s\" want \"%s\"; result \"%s\"; to_exception %s",
           propagated.c_str(), want.c_str(), got.c_str(), pt.show().c_str());
      }
    }
}

void sh_try_call()
{
  try_call_user<base_error>("base_error", [](int kind) { return kind >= 3 && kind <= 9; });
  try_call_user<derived_error>("derived_error", [](int kind) { return kind >= 4 && kind <= 9; });
  try_call_user<derived2_error>("derived2_error", [](int kind) { return kind >= 7 && kind <= 9; });
  try_call_std<std::exception>("std::exception", [](int) { return true; });
  try_call_std<std::runtime_error>("std::runtime_error", [](int cls) { return cls == 0 || cls == 3; });
  try_call_std<std::logic_error>("std::logic_error", [](int cls) { return cls == 1 || cls == 4; });
  try_call_std<user_std_error>("user_std_error", [](int cls) { return cls == 2; });
}

// ------------------------------------------------------------------ to_exception throws what make_exception returned
void sh_to_exception()
{
  for (int cat = 0; cat < 3; ++cat)
    for (int m = 0; m < 4; ++m)
      for (int c = 0; c < 3; ++c)
        for (int cls = 0; cls < 3; ++cls)
        {
          if (!vrt::begin("optional::to_exception<cat,m,payload,class>", cat, m, c, cls))
            continue;
          auto desc = [&]
          {
            return std::string("optional::to_exception(") + show_opt(m) + " as " + cat_name(cat) + ", () -> " + (cls == 0 ? "base_error" : cls == 1 ? "derived_error" : "derived2_error") +
                   "(" + std::to_string(c) + "))";
          };
          vrt::nontrivial(m == 0);
          SAMPLE();
          probe p;
          OD o = m == 0 ? OD{} : OD{D{m - 1}};
          int got = -1, thrown = -2;
          auto run = [&](auto const &mk)
          {
            try
            {
              got = call_cat(cat, o,
                             [&](auto &&x)
                             {
                               D const r = fcppt::optional::to_exception(std::forward<decltype(x)>(x), mk);
                               return r.v;
                             });
            }
            catch (base_error const &e)
            {
              thrown = observe(e);
            }
          };
          if (cls == 0)
            run([&] { p.hit(0); return base_error{}; });
          else if (cls == 1)
            run([&] { p.hit(0); return derived_error{c}; });
          else
            run([&] { p.hit(0); return derived2_error{c}; });
          int const want_thrown = cls == 0 ? 0 : cls == 1 ? 1 + c : 4 + c;
          if (m == 0)
            CK(thrown == want_thrown && got == -1 && p.is(1, 0), "optional::to_exception:thrown_object", "caught object #%d want #%d (got %d; %s)", thrown, want_thrown, got,
               p.show().c_str());
          else
            CK(thrown == -2 && got == m - 1 && p.is(0), "optional::to_exception:value", "thrown=%d got=%d %s", thrown, got, p.show().c_str());
        }
  for (int cat = 0; cat < 3; ++cat)
    for (int e = 0; e < 5; ++e)
      for (int cls = 0; cls < 3; ++cls)
      {
        if (!vrt::begin("either::to_exception<cat,e,class>", cat, e, cls))
          continue;
        auto desc = [&]
        {
          return std::string("either::to_exception(") + sh(e) + " as " + cat_name(cat) + ", f -> " + (cls == 0 ? "base_error" : cls == 1 ? "derived_error" : "derived2_error") +
                 "(f))";
        };
        vrt::nontrivial(e < 2);
        SAMPLE();
        probe p;
        EI ei = mk_ei(e);
        int got = -1, thrown = -2;
        auto run = [&](auto const &mk)
        {
          try
          {
            got = call_cat(cat, ei,
                           [&](auto &&x)
                           {
                             D const r = fcppt::either::to_exception(std::forward<decltype(x)>(x), mk);
                             return r.v;
                           });
          }
          catch (base_error const &ex)
          {
            thrown = observe(ex);
          }
        };
        if (cls == 0)
          run([&](E f) { p.hit(f.v, f.ok()); return base_error{}; });
        else if (cls == 1)
          run([&](E f) { p.hit(f.v, f.ok()); return derived_error{f.v}; });
        else
          run([&](E f) { p.hit(f.v, f.ok()); return derived2_error{f.v}; });
        int const want_thrown = cls == 0 ? 0 : cls == 1 ? 1 + e : 4 + e;
        if (e < 2)
          CK(thrown == want_thrown && got == -1 && p.is(1, e), "either::to_exception:thrown_object", "caught object #%d want #%d (got %d; %s)", thrown, want_thrown, got,
             p.show().c_str());
        else
          CK(thrown == -2 && got == e - 2 && p.is(0), "either::to_exception:success", "thrown=%d got=%d %s", thrown, got, p.show().c_str());
        if (cat < 2)
          CK(code(ei) == e, "either::to_exception:source_modified", "lvalue source is now %s", sh(code(ei)).c_str());
      }
}

// ------------------------------------------------------------------ variant<Base, Derived>
struct pbase
{
  int v;
  explicit pbase(int x) : v(x) {}
  pbase(pbase const &o) : v(o.v) {}
  pbase(pbase &&o) noexcept : v(o.v) { o.v = POISON; }
  pbase &operator=(pbase const &o)
  {
    v = o.v;
    return *this;
  }
  pbase &operator=(pbase &&o) noexcept
  {
    int const x = o.v;
    o.v = POISON;
    v = x;
    return *this;
  }
  virtual ~pbase() = default;
  virtual int kind() const { return 0; }
  friend bool operator==(pbase const &a, pbase const &b) { return a.kind() == b.kind() && a.v == b.v; }
  friend bool operator<(pbase const &a, pbase const &b) { return a.v < b.v; }
};
struct pderived : pbase
{
  int w;
  pderived(int x, int y) : pbase(x), w(y) {}
  pderived(pderived const &o) : pbase(o), w(o.w) {}
  pderived(pderived &&o) noexcept : pbase(std::move(o)), w(o.w) { o.w = POISON; }
  pderived &operator=(pderived const &o)
  {
    pbase::operator=(o);
    w = o.w;
    return *this;
  }
  pderived &operator=(pderived &&o) noexcept
  {
    int const y = o.w;
    pbase::operator=(std::move(o));
    o.w = POISON;
    w = y;
    return *this;
  }
  int kind() const override { return 1; }
  friend bool operator==(pderived const &a, pderived const &b) { return a.v == b.v && a.w == b.w; }
  friend bool operator<(pderived const &a, pderived const &b) { return a.v != b.v ? a.v < b.v : a.w < b.w; }
};
// values: 0..2 pbase(v), 3..8 pderived(v, w) with code 3 + 2v + w
constexpr int NPV = 9;
std::string spv(int c) { return c < 0 || c >= NPV ? "INVALID(" + std::to_string(c) + ")" : c < 3 ? "base(" + std::to_string(c) + ")" : "derived(" + std::to_string((c - 3) / 2) + "," + std::to_string((c - 3) % 2) + ")"; }
int obs(pbase const &b) { return (b.kind() == 0 && typeid(b) == typeid(pbase) && b.v >= 0 && b.v < 3) ? b.v : -100; }
int obs(pderived const &d) { return (d.kind() == 1 && d.v >= 0 && d.v < 3 && d.w >= 0 && d.w < 2) ? 3 + 2 * d.v + d.w : -100; }

template <class V> V mk_pv(int c) { return c < 3 ? V{pbase{c}} : V{pderived{(c - 3) / 2, (c - 3) % 2}}; }
template <class V> int pcode(V const &v)
{
  bool const hb = fcppt::variant::holds_type<pbase>(v), hd = fcppt::variant::holds_type<pderived>(v);
  if (hb == hd)
    return -1000;
  return hb ? obs(v.template get_unsafe<pbase>()) : obs(v.template get_unsafe<pderived>());
}

// the two alternative functions for match, in the order of the variant's type list
template <class V, class FB, class FD> D match_in_order(int cat, V &v, FB const &fb, FD const &fd)
{
  if constexpr (std::is_same_v<V, fcppt::variant::object<pbase, pderived>>)
    return call_cat(cat, v, [&](auto &&x) { return fcppt::variant::match(std::forward<decltype(x)>(x), fb, fd); });
  else
    return call_cat(cat, v, [&](auto &&x) { return fcppt::variant::match(std::forward<decltype(x)>(x), fd, fb); });
}

struct poly_visitor
{
  probe *pb, *pd;
  int operator()(pbase const &b) const
  {
    int const c = obs(b);
    pb->hit(c, c >= 0);
    return c;
  }
  int operator()(pderived const &d) const
  {
    int const c = obs(d);
    pd->hit(c, c >= 0);
    return c;
  }
};

template <class V> void poly_variant(char const *vname, int base_index)
{
  static std::string const n_match = std::string("variant::match<") + vname + "><cat,c,f_base,f_derived>";
  static std::string const n_misc = std::string("variant::observers<") + vname + "><cat,c>";
  static std::string const n_cmp = std::string("variant::compare<") + vname + "><l,r>";
  int const cb = vrt::thorough() ? 3 : 2;
  int const nfb = ipow(cb, 3), nfd = ipow(cb, 6);
  for (int fb = 0; fb < nfb; ++fb)
    for (int fd = 0; fd < nfd; ++fd)
    {
      if (vrt::out_of_time())
        return;
      tab const tb = decode(fb, cb, 3), td = decode(fd, cb, 6);
      for (int cat = 0; cat < 3; ++cat)
        for (int c = 0; c < NPV; ++c)
        {
          if (!vrt::begin(n_match.c_str(), cat, c, fb, fd))
            continue;
          auto desc = [&]
          { return std::string("variant::match(") + vname + " holding " + spv(c) + " as " + cat_name(cat) + ", base->" + show_tab(tb, show_int) + ", derived->" + show_tab(td, show_int) + ")"; };
          vrt::nontrivial(c >= 3);
          SAMPLE();
          probe pb, pd;
          // by value on purpose: handing the held derived object to the base function would slice it
          auto const gb = [&](pbase b) -> D
          {
            int const o = obs(b);
            pb.hit(o, o >= 0);
            return D{tb[o]};
          };
          auto const gd = [&](pderived d) -> D
          {
            int const o = obs(d);
            pd.hit(o, o >= 0);
            return D{td[o - 3]};
          };
          V v = mk_pv<V>(c);
          D const r = match_in_order(cat, v, gb, gd);
          int const want = c < 3 ? tb[c] : td[c - 3];
          CK(r.v == want, "variant::match<base,derived>:result", "got %d want %d", r.v, want);
          CK(pb.is(c < 3, c) && pd.is(c >= 3, c), "variant::match<base,derived>:calls", "base fn %s, derived fn %s", pb.show().c_str(), pd.show().c_str());
          if (cat < 2)
            CK(pcode(v) == c, "variant::match<base,derived>:source_modified", "lvalue source is now %s", spv(pcode(v)).c_str());
        }
    }
  for (int cat = 0; cat < 3; ++cat)
    for (int c = 0; c < NPV; ++c)
    {
      if (!vrt::begin(n_misc.c_str(), cat, c))
        continue;
      auto desc = [&] { return std::string("variant type_index/holds_type/to_optional/apply on ") + vname + " holding " + spv(c) + " as " + cat_name(cat); };
      vrt::nontrivial(c >= 3);
      SAMPLE();
      {
        V const v = mk_pv<V>(c);
        int const want_index = c < 3 ? base_index : 1 - base_index;
        CK(static_cast<int>(v.type_index()) == want_index, "variant<base,derived>:type_index", "type_index %d want %d", int(v.type_index()), want_index);
        CK(fcppt::variant::holds_type<pbase>(v) == (c < 3) && fcppt::variant::holds_type<pderived>(v) == (c >= 3), "variant<base,derived>:holds_type",
           "a held derived object must not count as a base (or vice versa)");
        CK(pcode(v) == c, "variant<base,derived>:value", "holds %s", spv(pcode(v)).c_str());
      }
      {
        V v = mk_pv<V>(c);
        auto const ob = call_cat(cat, v, [&](auto &&x) { return fcppt::variant::to_optional<pbase>(std::forward<decltype(x)>(x)); });
        CK(ob.has_value() == (c < 3) && (!ob.has_value() || obs(ob.get_unsafe()) == c), "variant::to_optional<base>:result", "to_optional<base> of %s: has_value=%d",
           spv(c).c_str(), int(ob.has_value()));
        if (cat < 2)
          CK(pcode(v) == c, "variant::to_optional<base>:source_modified", "lvalue source is now %s", spv(pcode(v)).c_str());
      }
      {
        V v = mk_pv<V>(c);
        auto const od = call_cat(cat, v, [&](auto &&x) { return fcppt::variant::to_optional<pderived>(std::forward<decltype(x)>(x)); });
        CK(od.has_value() == (c >= 3) && (!od.has_value() || obs(od.get_unsafe()) == c), "variant::to_optional<derived>:result", "to_optional<derived> of %s: has_value=%d",
           spv(c).c_str(), int(od.has_value()));
        if (cat < 2)
          CK(pcode(v) == c, "variant::to_optional<derived>:source_modified", "lvalue source is now %s", spv(pcode(v)).c_str());
      }
      {
        probe pb, pd;
        poly_visitor const vis{&pb, &pd};
        V v = mk_pv<V>(c);
        int const r = call_cat(cat, v, [&](auto &&x) { return fcppt::variant::apply(vis, std::forward<decltype(x)>(x)); });
        CK(r == c && pb.is(c < 3, c) && pd.is(c >= 3, c), "variant::apply<base,derived>", "got %d; base overload %s, derived overload %s", r, pb.show().c_str(),
           pd.show().c_str());
        if (cat < 2)
          CK(pcode(v) == c, "variant::apply<base,derived>:source_modified", "lvalue source is now %s", spv(pcode(v)).c_str());
      }
    }
  for (int l = 0; l < NPV; ++l)
    for (int r = 0; r < NPV; ++r)
    {
      if (!vrt::begin(n_cmp.c_str(), l, r))
        continue;
      auto desc = [&] { return std::string("variant compare/==/< on ") + vname + ": " + spv(l) + " vs " + spv(r); };
      bool const same = (l < 3) == (r < 3);
      vrt::nontrivial(same);
      SAMPLE();
      V const vl = mk_pv<V>(l), vr = mk_pv<V>(r);
      probe pb, pd;
      // comparator with a base overload and a derived overload: only the overload of the common alternative may run
      struct cmp
      {
        probe *pb, *pd;
        bool operator()(pbase const &a, pbase const &b) const
        {
          pb->hit(obs(a) * 16 + obs(b), obs(a) >= 0 && obs(b) >= 0);
          return obs(a) == obs(b);
        }
        bool operator()(pderived const &a, pderived const &b) const
        {
          pd->hit(obs(a) * 16 + obs(b), obs(a) >= 0 && obs(b) >= 0);
          return obs(a) == obs(b);
        }
      };
      bool const res = fcppt::variant::compare(vl, vr, cmp{&pb, &pd});
      CK(res == (l == r), "variant::compare<base,derived>:result", "got %d", int(res));
      CK(pb.is(same && l < 3, l * 16 + r) && pd.is(same && l >= 3, l * 16 + r), "variant::compare<base,derived>:calls", "base overload %s, derived overload %s",
         pb.show().c_str(), pd.show().c_str());
      CK((vl == vr) == (l == r) && (vl != vr) == (l != r), "variant::comparison<base,derived>:eq", "== gave %d", int(vl == vr));
      // documented: lexicographic on (type_index, value)
      int const li = l < 3 ? base_index : 1 - base_index, ri = r < 3 ? base_index : 1 - base_index;
      bool const lt = li != ri ? li < ri : l < r;
      CK((vl < vr) == lt, "variant::comparison<base,derived>:lt", "< gave %d want %d", int(vl < vr), int(lt));
    }
}

} // namespace

void c04_poly_shards()
{
  vrt::shard("poly/try_call", [] { sh_try_call(); });
  vrt::shard("poly/to_exception", [] { sh_to_exception(); });
  vrt::shard("poly/variant<base,derived>", [] { poly_variant<fcppt::variant::object<pbase, pderived>>("variant<base,derived>", 0); });
  vrt::shard("poly/variant<derived,base>", [] { poly_variant<fcppt::variant::object<pderived, pbase>>("variant<derived,base>", 1); });
}

// C01 -- Safe API is total: no UB, crash or hang; failure only via optional/either.
//
// Engine E, registry harness.  One `c01::entry` per public function x instantiation; every entry
// enumerates its complete stated domain.  Oracle for every case:
//   * the call returns normally (the case is announced before the call, so an ASan / UBSan /
//     _GLIBCXX_ASSERTIONS abort or a hang is attributed to it by the coordinator: "crash:<fn>:<kind>"),
//   * no exception escapes except the documented type of that entry ("exception:<fn>:<type>"),
//   * where it is cheap, the returned optional / either is compared with the obvious expectation
//     ("<fn>:<what>").
// Inputs that the documentation excludes or whose exact result is not representable are skipped; the
// skip predicate of each entry is printed into the evidence ("skipped:<entry>").
//
// This file: main() and the integer helpers (math::*, cast::truncation_check, enum_::from_int).
// C01_cont.cpp: containers, grid, array, runtime_index, enum from_string, extract_from_string, io, narrow/widen.
// C01_fs.cpp:   fcppt::filesystem on a private directory tree, options::impl::is_flag / next_arg, options::parse.
// C01_parse.cpp: fcppt::parse::parse_string / phrase_parse_string.
// C01_env.cpp:   locales with user-installed codecvt facets (std::codecvt_utf8, a scripted facet), throwing user callbacks.
// C01_stream.cpp: stream consumers on scripted stream buffers, on streams in every state / exception mask, on file streams.
// C01_more.cpp:  time, error, getenv, type_name, args, string / enum helpers (see its header comment).
// C01_more2.cpp: dynamic / pointer / value casts.
// C01_more3.cpp: floating point vector / matrix / interpolation functions, options / parse error output.
#include "C01_common.hpp"

#include <fcppt/cast/truncation_check.hpp>
#include <fcppt/enum/from_int.hpp>
#include <fcppt/math/ceil_div.hpp>
#include <fcppt/math/ceil_div_signed.hpp>
#include <fcppt/math/clamp.hpp>
#include <fcppt/math/diff.hpp>
#include <fcppt/math/div.hpp>
#include <fcppt/math/is_power_of_2.hpp>
#include <fcppt/math/log2.hpp>
#include <fcppt/math/mod.hpp>
#include <fcppt/math/next_power_of_2.hpp>
#include <fcppt/optional/object_impl.hpp>

#include <cmath>
#include <type_traits>

using namespace c01;

namespace
{
template <class T> std::string nm(char const *f) { return std::string(f) + "<" + tname<T>::v + ">"; }

// binary functions: the first operand takes every value on 8 and 16 bit; the second every value on 8 bit, on 16 bit the
// lattice (thorough: the lattice and every 16th value); the lattice for both on 32/64 bit
template <class T> std::vector<T> first_domain() { return domain<T>(); }
template <class T> std::vector<T> second_domain()
{
  if constexpr (sizeof(T) == 1)
    return domain<T>();
  else if constexpr (sizeof(T) == 2)
  {
    if (!vrt::thorough())
      return lattice<T>();
    std::set<T> s;
    for (T v : lattice<T>())
      s.insert(v);
    for (i128 v = lo<T>(); v <= hi<T>(); v += 16)
      s.insert(static_cast<T>(v));
    return std::vector<T>(s.begin(), s.end());
  }
  else
    return lattice<T>();
}

// ------------------------------------------------------------ truncation_check
template <class Dest, class Source> void tc_pair()
{
  entry e(std::string("truncation_check<") + tname<Dest>::v + ">(" + tname<Source>::v + ")");
  for (Source s : domain<Source>())
  {
    if (!e.begin(s))
      continue;
    i128 const exact = static_cast<i128>(s);
    bool const repr = fits<Dest>(exact);
    vrt::nontrivial(!std::is_same_v<Dest, Source> &&
                    (exact == lo<Dest>() || exact == hi<Dest>() || exact == hi<Dest>() + 1 || exact == lo<Dest>() - 1 ||
                     exact < 0 || exact > hi<Dest>() / 2));
    vrt::maybe_sample();
    guarded(e.name, [&] {
      fcppt::optional::object<Dest> const r = fcppt::cast::truncation_check<Dest>(s);
      VRT_CHECK(r.has_value() == repr, e.name + (repr ? ":missing" : ":spurious"), "value %lld: has_value=%d",
                (long long)as64(exact), (int)r.has_value());
      if (repr && r.has_value())
        VRT_CHECK(static_cast<i128>(r.get_unsafe()) == exact, e.name + ":wrong_value", "got %lld want %lld",
                  (long long)r.get_unsafe(), (long long)as64(exact));
    });
  }
}

template <class Dest> void tc_dest()
{
  tc_pair<Dest, u8>();
  tc_pair<Dest, i8>();
  tc_pair<Dest, u16>();
  tc_pair<Dest, i16>();
  tc_pair<Dest, u32>();
  tc_pair<Dest, i32>();
  tc_pair<Dest, u64>();
  tc_pair<Dest, i64>();
}

// ------------------------------------------------------------ enum from_int
enum class e8_3 : std::uint8_t { a, b, c, fcppt_maximum = c };
enum class e8_1 : std::uint8_t { a, fcppt_maximum = a };
enum class e8s_5 : std::int8_t { a, b, c, d, e, fcppt_maximum = e };
enum class e16_9 : std::uint16_t { a, b, c, d, e, f, g, h, i, fcppt_maximum = i };
enum class e32_4 : std::uint32_t { a, b, c, d, fcppt_maximum = d };
enum class eint_2 { a, b, fcppt_maximum = b };
enum class e8_200 : std::uint8_t { first = 0, fcppt_maximum = 199 };
// the largest 8-bit enum fcppt accepts: with fcppt_maximum = 255 enum_::size (a uint8_t constant) would be 256, which a build
// without -w rejects as a narrowing conversion in size.hpp
enum class e8_255 : std::uint8_t { first = 0, fcppt_maximum = 254 };
enum class e64_3 : std::uint64_t { a, b, c, fcppt_maximum = c };

template <class E, class V> void from_int_pair(char const *ename, i128 size)
{
  entry e(std::string("from_int<") + ename + ">(" + tname<V>::v + ")");
  for (V v : domain<V>())
  {
    if (!e.begin(v))
      continue;
    i128 const exact = static_cast<i128>(v);
    bool const in = exact < size;
    vrt::nontrivial(exact >= size - 1);
    vrt::maybe_sample();
    guarded(e.name, [&] {
      fcppt::optional::object<E> const r = fcppt::enum_::from_int<E>(v);
      VRT_CHECK(r.has_value() == in, e.name + (in ? ":missing" : ":spurious"), "value %lld size %lld: has_value=%d",
                (long long)as64(exact), (long long)as64(size), (int)r.has_value());
      if (in && r.has_value())
        VRT_CHECK(static_cast<i128>(static_cast<std::underlying_type_t<E>>(r.get_unsafe())) == exact, e.name + ":wrong_value",
                  "wrong enumerator for %lld", (long long)as64(exact));
    });
  }
}

template <class E> void from_int_enum(char const *ename, i128 size)
{
  from_int_pair<E, u8>(ename, size);
  from_int_pair<E, u16>(ename, size);
  from_int_pair<E, u32>(ename, size);
  from_int_pair<E, u64>(ename, size);
}

// ------------------------------------------------------------ unary helpers
template <class T> void unary_unsigned()
{
  entry e_ip2(nm<T>("is_power_of_2"));
  entry e_np2(nm<T>("next_power_of_2"), "values above the largest power of two of T (exact result not representable)");
  entry e_log(nm<T>("log2"), "x == 0 (documented: behaviour is undefined)");
  constexpr int bits = static_cast<int>(sizeof(T) * 8);
  for (T x : domain<T>())
  {
    i128 const X = static_cast<i128>(x);
    int fl = -1;
    for (int k = 0; k < bits; ++k)
      if ((X >> k) != 0)
        fl = k;
    bool const ispow = X != 0 && (X & (X - 1)) == 0;
    i128 next = 1;
    while (next < X)
      next <<= 1;
    if (e_ip2.begin(x))
    {
      vrt::nontrivial(ispow || X == 0 || X == hi<T>());
      guarded(e_ip2.name,
              [&] { VRT_CHECK(fcppt::math::is_power_of_2(x) == ispow, e_ip2.name + ":wrong", "is_power_of_2 wrong"); });
    }
    if (fits<T>(next) && e_np2.begin(x))
    {
      vrt::nontrivial(!ispow);
      vrt::maybe_sample();
      guarded(e_np2.name, [&] {
        T const r = fcppt::math::next_power_of_2(x);
        VRT_CHECK(static_cast<i128>(r) == next, e_np2.name + ":wrong", "got %llu want %llu", (unsigned long long)r,
                  (unsigned long long)next);
      });
    }
    if (X != 0 && e_log.begin(x))
    {
      vrt::nontrivial(!ispow || fl == bits - 1);
      vrt::maybe_sample();
      guarded(e_log.name, [&] {
        T const r = fcppt::math::log2(x);
        VRT_CHECK(static_cast<int>(r) == fl, e_log.name + ":wrong", "got %llu want %d", (unsigned long long)r, fl);
      });
    }
  }
}

// ------------------------------------------------------------ binary helpers
template <class T> void binary_unsigned(unsigned part = 0, unsigned nparts = 1)
{
  entry e_mod(nm<T>("mod"), nullptr, part == 0);
  entry e_div(nm<T>("div"), nullptr, part == 0);
  entry e_diff(nm<T>("diff"), nullptr, part == 0);
  auto const da = first_domain<T>();
  auto const db = second_domain<T>();
  std::size_t ai = 0;
  for (T a : da)
  {
    if (ai++ % nparts != part)
      continue;
    if (vrt::out_of_time())
      return;
    for (T b : db)
    {
      i128 const A = a, B = b;
      if (e_mod.begin(a, b))
      {
        vrt::nontrivial(B == 0 || A >= B);
        guarded(e_mod.name, [&] {
          auto const r = fcppt::math::mod(a, b);
          if (B == 0)
            VRT_CHECK(!r.has_value(), e_mod.name + ":zero", "mod by zero returned a value");
          else
            VRT_CHECK(r.has_value() && static_cast<i128>(r.get_unsafe()) == A % B, e_mod.name + ":wrong", "mod wrong");
        });
      }
      if (e_div.begin(a, b))
      {
        vrt::nontrivial(B == 0 || A >= B);
        vrt::maybe_sample();
        guarded(e_div.name, [&] {
          auto const r = fcppt::math::div(a, b);
          if (B == 0)
            VRT_CHECK(!r.has_value(), e_div.name + ":zero", "div by zero returned a value");
          else
            VRT_CHECK(r.has_value() && static_cast<i128>(r.get_unsafe()) == A / B, e_div.name + ":wrong", "div wrong");
        });
      }
      if (e_diff.begin(a, b))
      {
        vrt::nontrivial(A != B);
        guarded(e_diff.name, [&] {
          i128 const want = A > B ? A - B : B - A;
          T const r = fcppt::math::diff(a, b);
          VRT_CHECK(static_cast<i128>(r) == want, e_diff.name + ":wrong", "got %llu want %llu", (unsigned long long)r,
                    (unsigned long long)want);
        });
      }
    }
  }
}

template <class T> void binary_signed(unsigned part = 0, unsigned nparts = 1)
{
  using R = decltype(T{} / T{});
  entry e_div(nm<T>("div"), "quotient not representable in the promoted type (min / -1)", part == 0);
  entry e_diff(nm<T>("diff"), "|a-b| or the intermediate a-b not representable (documented as abs(a-b))", part == 0);
  auto const da = first_domain<T>();
  auto const db = second_domain<T>();
  std::size_t ai = 0;
  for (T a : da)
  {
    if (ai++ % nparts != part)
      continue;
    if (vrt::out_of_time())
      return;
    for (T b : db)
    {
      i128 const A = a, B = b;
      if ((B == 0 || fits<R>(A / B)) && e_div.begin(a, b))
      {
        vrt::nontrivial(B == 0 || A < 0 || B < 0);
        vrt::maybe_sample();
        guarded(e_div.name, [&] {
          auto const r = fcppt::math::div(a, b);
          if (B == 0)
            VRT_CHECK(!r.has_value(), e_div.name + ":zero", "div by zero returned a value");
          else
            VRT_CHECK(r.has_value() && static_cast<i128>(r.get_unsafe()) == A / B, e_div.name + ":wrong", "div wrong");
        });
      }
      i128 const d = A > B ? A - B : B - A;
      if (fits<T>(d) && fits<R>(A - B) && e_diff.begin(a, b))
      {
        vrt::nontrivial(A != B);
        guarded(e_diff.name, [&] {
          T const r = fcppt::math::diff(a, b);
          VRT_CHECK(static_cast<i128>(r) == d, e_diff.name + ":wrong", "got %lld want %lld", (long long)r, (long long)as64(d));
        });
      }
    }
  }
}

template <class T> void clamp_all()
{
  entry e(nm<T>("clamp"));
  // all triples of: every 8-bit value; the 16-bit lattice; the 32/64-bit lattice (quick: thinned to 64 values)
  std::vector<T> dom;
  if constexpr (sizeof(T) == 1)
    dom = domain<T>();
  else
    dom = vrt::thorough() ? lattice<T>() : thin(lattice<T>(), 64);
  for (T v : dom)
  {
    if (vrt::out_of_time())
      return;
    for (T mn : dom)
      for (T mx : dom)
      {
        if (!e.begin(v, mn, mx))
          continue;
        vrt::nontrivial(mn > mx || v < mn || v > mx);
        vrt::maybe_sample();
        guarded(e.name, [&] {
          auto const r = fcppt::math::clamp(v, mn, mx);
          if (mn > mx)
            VRT_CHECK(!r.has_value(), e.name + ":empty_interval", "empty interval gave a value");
          else
          {
            T const want = v < mn ? mn : (v > mx ? mx : v);
            VRT_CHECK(r.has_value() && r.get_unsafe() == want, e.name + ":wrong", "clamp wrong");
          }
        });
      }
  }
}

template <class T> std::vector<T> dense(int from, int to)
{
  std::vector<T> r;
  for (int i = from; i <= to; ++i)
    r.push_back(static_cast<T>(i));
  return r;
}

// ceil_div / ceil_div_signed do not compile for types narrower than int
template <class T> void ceil_div_unsigned(std::vector<T> const &dom, char const *tag)
{
  entry e(nm<T>("ceil_div") + "/" + tag);
  for (T a : dom)
  {
    if (vrt::out_of_time())
      return;
    for (T b : dom)
    {
      if (!e.begin(a, b))
        continue;
      i128 const A = a, B = b;
      vrt::nontrivial(B == 0 || A % B != 0);
      vrt::maybe_sample();
      guarded(e.name, [&] {
        auto const r = fcppt::math::ceil_div(a, b);
        if (B == 0)
          VRT_CHECK(!r.has_value(), nm<T>("ceil_div") + ":zero", "zero divisor gave a value");
        else
          VRT_CHECK(r.has_value() && static_cast<i128>(r.get_unsafe()) == (A + B - 1) / B, nm<T>("ceil_div") + ":wrong",
                    "ceil_div wrong");
      });
    }
  }
}

i128 ceil_div_exact(i128 a, i128 b)
{
  i128 q = a / b;
  if (a % b != 0 && ((a < 0) == (b < 0)))
    ++q;
  return q;
}

template <class T> void ceil_div_signed_all(std::vector<T> const &dom, char const *tag)
{
  entry e(nm<T>("ceil_div_signed") + "/" + tag, "exact quotient not representable (min / -1)");
  for (T a : dom)
  {
    if (vrt::out_of_time())
      return;
    for (T b : dom)
    {
      i128 const A = a, B = b;
      if (B != 0 && !fits<T>(ceil_div_exact(A, B)))
        continue;
      if (!e.begin(a, b))
        continue;
      vrt::nontrivial(B == 0 || A % B != 0);
      vrt::maybe_sample();
      guarded(e.name, [&] {
        auto const r = fcppt::math::ceil_div_signed(a, b);
        if (B == 0)
          VRT_CHECK(!r.has_value(), nm<T>("ceil_div_signed") + ":zero", "zero divisor gave a value");
        else
          VRT_CHECK(r.has_value() && static_cast<i128>(r.get_unsafe()) == ceil_div_exact(A, B),
                    nm<T>("ceil_div_signed") + (B < 0 ? ":wrong:negative_divisor" : ":wrong"), "got %lld want %lld",
                    (long long)(r.has_value() ? r.get_unsafe() : 0), (long long)as64(ceil_div_exact(A, B)));
      });
    }
  }
}

// floating point instantiations of div / mod / clamp / diff: special values only, totality plus the guard
template <class F> void floating(char const *tn)
{
  using L = std::numeric_limits<F>;
  std::vector<F> const dom{F(0),        -F(0),        F(1),           F(-1),          F(0.5),           F(3),
                           L::min(),    -L::min(),    L::max(),       L::lowest(),    L::denorm_min(),  -L::denorm_min(),
                           L::epsilon(), L::infinity(), -L::infinity(), L::quiet_NaN()};
  entry e_div(std::string("div<") + tn + ">");
  entry e_mod(std::string("mod<") + tn + ">");
  entry e_diff(std::string("diff<") + tn + ">");
  entry e_clamp(std::string("clamp<") + tn + ">");
  for (std::size_t i = 0; i < dom.size(); ++i)
    for (std::size_t j = 0; j < dom.size(); ++j)
    {
      F const a = dom[i], b = dom[j];
      bool const bz = b == F(0);
      if (e_div.begin(i, j))
      {
        vrt::nontrivial(bz || !std::isfinite(a) || !std::isfinite(b));
        guarded(e_div.name, [&] {
          auto const r = fcppt::math::div(a, b);
          VRT_CHECK(r.has_value() == !bz, e_div.name + ":guard", "div(%g,%g) has_value=%d", (double)a, (double)b,
                    (int)r.has_value());
        });
      }
      if (e_mod.begin(i, j))
      {
        vrt::nontrivial(bz || !std::isfinite(a) || !std::isfinite(b));
        vrt::maybe_sample();
        guarded(e_mod.name, [&] {
          auto const r = fcppt::math::mod(a, b);
          VRT_CHECK(r.has_value() == !bz, e_mod.name + ":guard", "mod(%g,%g) has_value=%d", (double)a, (double)b,
                    (int)r.has_value());
        });
      }
      if (e_diff.begin(i, j))
      {
        vrt::nontrivial(i != j);
        guarded(e_diff.name, [&] {
          F const r = fcppt::math::diff(a, b);
          if (std::isfinite(a) && std::isfinite(b) && std::isfinite(a - b))
            VRT_CHECK(r == std::fabs(a - b), e_diff.name + ":wrong", "diff(%g,%g)=%g", (double)a, (double)b, (double)r);
        });
      }
      for (std::size_t k = 0; k < dom.size(); ++k)
      {
        F const c = dom[k];
        if (!e_clamp.begin(i, j, k))
          continue;
        vrt::nontrivial(!(b <= c) || a < b || a > c);
        guarded(e_clamp.name, [&] {
          auto const r = fcppt::math::clamp(a, b, c);
          // with a NaN bound "the range is empty" depends on how the comparison is spelled: information only
          if (std::isnan(b) || std::isnan(c))
            C01_INFO(!r.has_value(), e_clamp.name + ":guard:nan_bound");
          else
            VRT_CHECK(r.has_value() == (b <= c), e_clamp.name + ":guard", "clamp(%g,%g,%g) has_value=%d", (double)a, (double)b,
                      (double)c, (int)r.has_value());
        });
      }
    }
}
}

int main(int argc, char **argv)
{
  vrt::shard("truncation_check->u8", [] { tc_dest<u8>(); });
  vrt::shard("truncation_check->i8", [] { tc_dest<i8>(); });
  vrt::shard("truncation_check->u16", [] { tc_dest<u16>(); });
  vrt::shard("truncation_check->i16", [] { tc_dest<i16>(); });
  vrt::shard("truncation_check->u32", [] { tc_dest<u32>(); });
  vrt::shard("truncation_check->i32", [] { tc_dest<i32>(); });
  vrt::shard("truncation_check->u64", [] { tc_dest<u64>(); });
  vrt::shard("truncation_check->i64", [] { tc_dest<i64>(); });
  vrt::shard("from_int", [] {
    from_int_enum<e8_3>("e8_3", 3);
    from_int_enum<e8_1>("e8_1", 1);
    from_int_enum<e8s_5>("e8s_5", 5);
    from_int_enum<e16_9>("e16_9", 9);
    from_int_enum<e32_4>("e32_4", 4);
    from_int_enum<eint_2>("eint_2", 2);
    from_int_enum<e8_200>("e8_200", 200);
    from_int_enum<e8_255>("e8_255", 255);
    from_int_enum<e64_3>("e64_3", 3);
  });
  vrt::shard("unary", [] {
    unary_unsigned<u8>();
    unary_unsigned<u16>();
    unary_unsigned<u32>();
    unary_unsigned<u64>();
  });
  vrt::shard("binary_u8", [] { binary_unsigned<u8>(); });
  vrt::shard("binary_i8", [] { binary_signed<i8>(); });
  for (unsigned p = 0; p < 16; ++p)
  {
    vrt::shard("binary_u16/" + std::to_string(p), [p] { binary_unsigned<u16>(p, 16); });
    vrt::shard("binary_i16/" + std::to_string(p), [p] { binary_signed<i16>(p, 16); });
  }
  vrt::shard("binary_32_64", [] {
    binary_unsigned<u32>();
    binary_unsigned<u64>();
    binary_signed<i32>();
    binary_signed<i64>();
  });
  vrt::shard("clamp_u8", [] { clamp_all<u8>(); });
  vrt::shard("clamp_i8", [] { clamp_all<i8>(); });
  vrt::shard("clamp_16", [] {
    clamp_all<u16>();
    clamp_all<i16>();
  });
  vrt::shard("clamp_u32", [] { clamp_all<u32>(); });
  vrt::shard("clamp_i32", [] { clamp_all<i32>(); });
  vrt::shard("clamp_u64", [] { clamp_all<u64>(); });
  vrt::shard("clamp_i64", [] { clamp_all<i64>(); });
  vrt::shard("ceil_div", [] {
    ceil_div_unsigned<u32>(dense<u32>(0, vrt::thorough() ? 2047 : 511), "dense");
    ceil_div_unsigned<u32>(lattice<u32>(), "lattice");
    ceil_div_unsigned<u64>(lattice<u64>(), "lattice");
  });
  vrt::shard("ceil_div_signed", [] {
    ceil_div_signed_all<i32>(vrt::thorough() ? dense<i32>(-1024, 1023) : dense<i32>(-256, 255), "dense");
    ceil_div_signed_all<i32>(lattice<i32>(), "lattice");
    ceil_div_signed_all<i64>(lattice<i64>(), "lattice");
  });
  vrt::shard("floating", [] {
    floating<float>("float");
    floating<double>("double");
  });
  c01::register_containers();
  c01::register_fs_options();
  c01::register_parse();
  c01::register_env();
  c01::register_streams();
  c01::register_more();
  c01::register_more_casts();
  c01::register_more_math();
  return vrt::run(argc, argv);
}

// C17 (element semantics, part 1): optional, either, variant, tuple, array, record, enum array, recursive,
// strong_typedef, reference, shared_ptr over component types double / padded / nr (see C17_elem.hpp).
#include <C17_elem.hpp>

#include <fcppt/make_shared_ptr.hpp>
#include <fcppt/recursive.hpp>
#include <fcppt/recursive_comparison.hpp>
#include <fcppt/reference.hpp>
#include <fcppt/reference_comparison.hpp>
#include <fcppt/reference_std_hash.hpp>
#include <fcppt/shared_ptr.hpp>
#include <fcppt/shared_ptr_std_hash.hpp>
#include <fcppt/strong_typedef.hpp>
#include <fcppt/strong_typedef_comparison.hpp>
#include <fcppt/strong_typedef_std_hash.hpp>
#include <fcppt/array/comparison.hpp>
#include <fcppt/array/object.hpp>
#include <fcppt/either/comparison.hpp>
#include <fcppt/either/object.hpp>
#include <fcppt/enum/array.hpp>
#include <fcppt/enum/array_comparison.hpp>
#include <fcppt/optional/comparison.hpp>
#include <fcppt/optional/object.hpp>
#include <fcppt/record/comparison.hpp>
#include <fcppt/record/element.hpp>
#include <fcppt/record/get.hpp>
#include <fcppt/record/make_label.hpp>
#include <fcppt/record/object.hpp>
#include <fcppt/tuple/comparison.hpp>
#include <fcppt/tuple/get.hpp>
#include <fcppt/tuple/object.hpp>
#include <fcppt/variant/comparison.hpp>
#include <fcppt/variant/object.hpp>

#include <functional>
#include <string>
#include <vector>

namespace
{
using namespace c17e;
using key_t = c17::key_t; // hides ::key_t of <sys/types.h>

template <class E> struct et;
template <> struct et<double>
{
  static constexpr char const *name = "double";
  static std::vector<leaf> dom() { return doubles(); }
  static double val(leaf const &l) { return l.d; }
  static void fix(double &, leaf const &) {}
};
template <> struct et<padded>
{
  static constexpr char const *name = "padded";
  static std::vector<leaf> dom() { return paddeds(); }
  static padded val(leaf const &l) { return padded_value(l.pidx); }
  static void fix(padded &dst, leaf const &l) { place(dst, l.pidx); } // including the padding bytes
};
template <> struct et<nr>
{
  static constexpr char const *name = "nr";
  static std::vector<leaf> dom() { return nrs(); }
  static nr val(leaf const &l) { return l.n; }
  static void fix(nr &, leaf const &) {}
};

// ------------------------------------------------------------------ optional, recursive, strong_typedef
template <class E> void optionals()
{
  using opt = fcppt::optional::object<E>;
  euniverse<opt> u;
  eadd(u, opt{}, key_t{0}, {}, "nothing");
  for (int round = 0; round < 2; ++round) // every value in two different objects
    for (leaf const &l : et<E>::dom())
    {
      opt o{et<E>::val(l)};
      et<E>::fix(o.get_unsafe(), l);
      eadd(u, std::move(o), key_t{1}, {l}, round ? "second object" : "");
    }
  check_elem<c17::NE | c17::LT | c17::LEX>("optional", std::string("<") + et<E>::name + ">", u, shape_then_elems{});
}

template <class E> void recursives()
{
  using rec = fcppt::recursive<E>;
  euniverse<rec> u;
  for (int round = 0; round < 2; ++round)
    for (leaf const &l : et<E>::dom())
    {
      rec r{et<E>::val(l)};
      et<E>::fix(r.get(), l);
      eadd(u, std::move(r), key_t{}, {l}, round ? "second object" : "");
    }
  check_elem<c17::NE>("recursive", std::string("<") + et<E>::name + ">", u);
}

template <class E> struct st_tag
{
};
// strong_typedef: every comparison operator is exactly the component's operator (also for the partially
// ordered / non-reflexive ones: transparency, no order laws)
template <class E> void strong_typedefs()
{
  using st = fcppt::strong_typedef<E, st_tag<E>>;
  static std::string const fam = std::string("strong_typedef<") + et<E>::name + ">";
  static std::string const n = fam + ":elem_pair";
  auto const dom = et<E>::dom();
  for (std::size_t i = 0; i < dom.size(); ++i)
    for (std::size_t j = 0; j < dom.size(); ++j)
    {
      if (!vrt::begin(n.c_str(), i, j))
        continue;
      vrt::nontrivial(leaf_eq(dom[i], dom[j]) != leaf_same_bytes(dom[i], dom[j]));
      vrt::describe(fam + " elem pair: " + show_leaf(dom[i]) + " , " + show_leaf(dom[j]));
      vrt::maybe_sample();
      E a = et<E>::val(dom[i]), b = et<E>::val(dom[j]);
      et<E>::fix(a, dom[i]);
      et<E>::fix(b, dom[j]);
      st x{a}, y{b};
      et<E>::fix(x.get(), dom[i]);
      et<E>::fix(y.get(), dom[j]);
#define C17E_CMP(op, name)                                                                                             \
  VRT_CHECK((x op y) == (a op b), fam + ":" name, "st(%s) " #op " st(%s) gave %d, the component's operator gives %d",   \
            show_leaf(dom[i]).c_str(), show_leaf(dom[j]).c_str(), (int)(x op y), (int)(a op b))
      C17E_CMP(==, "equal");
      C17E_CMP(!=, "not_equal");
      C17E_CMP(<, "less");
      C17E_CMP(<=, "less_equal");
      C17E_CMP(>, "greater");
      C17E_CMP(>=, "greater_equal");
#undef C17E_CMP
      if constexpr (std::is_same_v<E, double>)
        if (a == b)
          VRT_CHECK(std::hash<st>{}(x) == std::hash<st>{}(y), fam + ":hash", "equal values %s, %s hash differently",
                    show_leaf(dom[i]).c_str(), show_leaf(dom[j]).c_str());
    }
}

// ------------------------------------------------------------------ array, enum array
enum class e2
{
  a,
  b,
  fcppt_maximum = b
};

template <class E> void arrays()
{
  {
    using arr = fcppt::array::object<E, 2>;
    euniverse<arr> u;
    for (auto const &s : sequences(et<E>::dom(), 2))
    {
      arr a{et<E>::val(s[0]), et<E>::val(s[1])};
      et<E>::fix(a.get_unsafe(0), s[0]);
      et<E>::fix(a.get_unsafe(1), s[1]);
      eadd(u, std::move(a), key_t{}, s);
    }
    check_elem<c17::NE>("array", std::string("<") + et<E>::name + ",2>", u);
  }
  {
    using arr = fcppt::enum_::array<e2, E>;
    euniverse<arr> u;
    for (auto const &s : sequences(et<E>::dom(), 2))
    {
      arr a{et<E>::val(s[0]), et<E>::val(s[1])};
      et<E>::fix(a[e2::a], s[0]);
      et<E>::fix(a[e2::b], s[1]);
      eadd(u, std::move(a), key_t{}, s);
    }
    check_elem<c17::NE>("enum_array", std::string("<e2,") + et<E>::name + ">", u);
  }
}

// ------------------------------------------------------------------ tuple, record, variant, either
FCPPT_RECORD_MAKE_LABEL(ld);
FCPPT_RECORD_MAKE_LABEL(lp);
FCPPT_RECORD_MAKE_LABEL(ln);

void products()
{
  using tup = fcppt::tuple::object<double, padded, nr>;
  using rec1 = fcppt::record::object<fcppt::record::element<ld, double>, fcppt::record::element<lp, padded>,
                                     fcppt::record::element<ln, nr>>;
  using rec2 = fcppt::record::object<fcppt::record::element<ln, nr>, fcppt::record::element<ld, double>,
                                     fcppt::record::element<lp, padded>>;
  euniverse<tup> ut;
  euniverse<rec1> u1;
  euniverse<rec2> u2;
  for (leaf const &d : doubles())
    for (leaf const &p : paddeds())
      for (leaf const &n : nrs())
      {
        std::vector<leaf> const el{d, p, n};
        tup t{d.d, padded_value(p.pidx), n.n};
        place(fcppt::tuple::get<1>(t), p.pidx);
        eadd(ut, std::move(t), key_t{}, el);
        rec1 r1{ld{} = d.d, lp{} = padded_value(p.pidx), ln{} = n.n};
        place(fcppt::record::get<lp>(r1), p.pidx);
        eadd(u1, std::move(r1), key_t{}, el);
        rec2 r2{ld{} = d.d, lp{} = padded_value(p.pidx), ln{} = n.n};
        place(fcppt::record::get<lp>(r2), p.pidx);
        eadd(u2, std::move(r2), key_t{}, el);
      }
  check_elem<c17::NE>("tuple", "<double,padded,nr>", ut);
  check_elem<c17::NE>("record", "<d:double,p:padded,n:nr>", u1);
  // equivalent records with another element order
  for (std::size_t i = 0; i < u1.size(); ++i)
    for (std::size_t j = 0; j < u2.size(); ++j)
    {
      if (!vrt::begin("record<d,p,n>-vs-<n,d,p>:elem_pair", i, j))
        continue;
      bool const req = std::equal(u1[i].elems.begin(), u1[i].elems.end(), u2[j].elems.begin(), leaf_eq);
      vrt::nontrivial(req != (i == j));
      bool const e12 = u1[i].value == u2[j].value, e21 = u2[j].value == u1[i].value, n12 = u1[i].value != u2[j].value;
      VRT_CHECK(e12 == req && e21 == req && n12 == !req, "record:eq_elem:<mixed order>",
                "==:%d/%d !=:%d, element-wise == gives %d: %s vs %s", (int)e12, (int)e21, (int)n12, (int)req,
                eshow(u1[i]).c_str(), eshow(u2[j]).c_str());
    }
}

void variants_eithers()
{
  {
    using var = fcppt::variant::object<double, padded, nr>;
    euniverse<var> u;
    auto add = [&](var v, long idx, leaf const &l, std::string const &route) {
      if (idx == 1)
        place(v.get_unsafe<padded>(), l.pidx);
      eadd(u, std::move(v), key_t{idx}, {l}, route);
    };
    for (int round = 0; round < 2; ++round)
    {
      for (leaf const &l : doubles())
      {
        var v{padded_value(3)};
        v = var{l.d};
        add(round ? v : var{l.d}, 0, l, round ? "assigned over a padded" : "ctor");
      }
      for (leaf const &l : paddeds())
      {
        var v{1.5};
        v = var{padded_value(l.pidx)};
        add(round ? v : var{padded_value(l.pidx)}, 1, l, round ? "assigned over a double" : "ctor");
      }
      for (leaf const &l : nrs())
      {
        var v{std::numeric_limits<double>::quiet_NaN()};
        v = var{l.n};
        add(round ? v : var{l.n}, 2, l, round ? "assigned over a NaN" : "ctor");
      }
    }
    check_elem<c17::NE | c17::LT | c17::LEX>("variant", "<double,padded,nr>", u, shape_then_elems{});
  }
  {
    using eith = fcppt::either::object<nr, double>;
    euniverse<eith> u;
    for (int round = 0; round < 2; ++round)
    {
      for (leaf const &l : nrs())
        eadd(u, eith{l.n}, key_t{0}, {l}, round ? "second object" : "failure");
      for (leaf const &l : doubles())
        eadd(u, eith{l.d}, key_t{1}, {l}, round ? "second object" : "success");
    }
    check_elem<c17::NE>("either", "<nr,double>", u);
  }
  {
    using eith = fcppt::either::object<double, padded>;
    euniverse<eith> u;
    for (int round = 0; round < 2; ++round)
    {
      for (leaf const &l : doubles())
        eadd(u, eith{l.d}, key_t{0}, {l}, round ? "second object" : "failure");
      for (leaf const &l : paddeds())
      {
        eith e{padded_value(l.pidx)};
        place(e.get_success_unsafe(), l.pidx);
        eadd(u, std::move(e), key_t{1}, {l}, round ? "second object" : "success");
      }
    }
    check_elem<c17::NE>("either", "<double,padded>", u);
  }
}

// ------------------------------------------------------------------ reference, shared_ptr: identity, whatever the target's ==
void identities()
{
  static double targets[5] = {0.0, -0.0, std::numeric_limits<double>::quiet_NaN(), std::numeric_limits<double>::quiet_NaN(), 0.0};
  std::vector<fcppt::shared_ptr<double>> owners;
  for (double t : targets)
    owners.push_back(fcppt::make_shared_ptr<double>(t));
  for (std::size_t i = 0; i < 5; ++i)
    for (std::size_t j = 0; j < 5; ++j)
    {
      if (!vrt::begin("reference/shared_ptr<double>:identity_pair", i, j))
        continue;
      vrt::nontrivial((i == j) != (targets[i] == targets[j])); // identity and value equality disagree
      fcppt::reference<double> const a{targets[i]}, b{targets[j]};
      VRT_CHECK((a == b) == (i == j) && (a != b) == (i != j) && (a < b) == (i < j), "reference:identity_elem:<double>",
                "references to targets %zu,%zu (values %g,%g): ==:%d !=:%d <:%d", i, j, targets[i], targets[j], (int)(a == b),
                (int)(a != b), (int)(a < b));
      if (i == j)
        VRT_CHECK(std::hash<fcppt::reference<double>>{}(a) == std::hash<fcppt::reference<double>>{}(b),
                  "reference:hash_elem:<double>", "same target hashes differently");
      fcppt::shared_ptr<double> const p{owners[i]}, q{owners[j]};
      bool const plt = std::less<double *>{}(p.get_pointer(), q.get_pointer());
      VRT_CHECK((p == q) == (i == j) && (p != q) == (i != j) && (p < q) == plt, "shared_ptr:identity_elem:<double>",
                "shared_ptrs to objects %zu,%zu (values %g,%g): ==:%d !=:%d <:%d", i, j, targets[i], targets[j], (int)(p == q),
                (int)(p != q), (int)(p < q));
      if (i == j)
        VRT_CHECK(std::hash<fcppt::shared_ptr<double>>{}(p) == std::hash<fcppt::shared_ptr<double>>{}(q),
                  "shared_ptr:hash_elem:<double>", "same object hashes differently");
    }
}

} // namespace

void register_elem_sums()
{
  vrt::shard("elem_wrappers", [] {
    optionals<double>();
    optionals<padded>();
    optionals<nr>();
    recursives<double>();
    recursives<padded>();
    recursives<nr>();
    strong_typedefs<double>();
    strong_typedefs<padded>();
    strong_typedefs<nr>();
    identities();
  });
  vrt::shard("elem_arrays", [] {
    arrays<double>();
    arrays<padded>();
    arrays<nr>();
  });
  vrt::shard("elem_products", [] { products(); });
  vrt::shard("elem_variant_either", [] { variants_eithers(); });
}

// C02 -- parser combinators implement ordered-choice (PEG) semantics for every grammar.
// Engine P: grammar ASTs are enumerated exhaustively up to a node count; every AST is turned
// into a real fcppt.parse parser *at run time* through fcppt's own type erasure
// (fcppt::parse::make_base; every node's typed result is rendered to a canonical string by a
// convert), run on every input string up to a length with every skipper, and compared with a
// reference PEG interpreter written from doc/files/modules/parse.doxygen (DESIGN.md appendix A).
// The reference shares no code with fcppt: it works on (std::string, index).
#pragma once
#include <cstdio>
#include <vrt.hpp>

#include <fcppt/make_cref.hpp>
#include <fcppt/reference_impl.hpp>
#include <fcppt/unit.hpp>
#include <fcppt/either/match.hpp>
#include <fcppt/either/object_impl.hpp>
#include <fcppt/optional/object_impl.hpp>
#include <fcppt/parse/base_impl.hpp>
#include <fcppt/parse/base_unique_ptr.hpp>
#include <fcppt/parse/basic_char.hpp>
#include <fcppt/parse/basic_char_set.hpp>
#include <fcppt/parse/basic_literal.hpp>
#include <fcppt/parse/basic_string.hpp>
#include <fcppt/parse/basic_stream_fwd.hpp>
#include <fcppt/parse/epsilon.hpp>
#include <fcppt/parse/error.hpp>
#include <fcppt/parse/fail.hpp>
#include <fcppt/parse/int.hpp>
#include <fcppt/parse/list.hpp>
#include <fcppt/parse/make_base.hpp>
#include <fcppt/parse/make_convert.hpp>
#include <fcppt/parse/make_convert_if.hpp>
#include <fcppt/parse/make_fatal.hpp>
#include <fcppt/parse/make_ignore.hpp>
#include <fcppt/parse/make_lexeme.hpp>
#include <fcppt/parse/make_success.hpp>
#include <fcppt/parse/named.hpp>
#include <fcppt/parse/phrase_parse_string.hpp>
#include <fcppt/parse/result.hpp>
#include <fcppt/parse/separator.hpp>
#include <fcppt/parse/uint.hpp>
#include <fcppt/parse/operators/alternative.hpp>
#include <fcppt/parse/operators/complement.hpp>
#include <fcppt/parse/operators/not.hpp>
#include <fcppt/parse/operators/optional.hpp>
#include <fcppt/parse/operators/repetition.hpp>
#include <fcppt/parse/operators/repetition_plus.hpp>
#include <fcppt/parse/operators/sequence.hpp>
#include <fcppt/parse/skipper/basic_char_set.hpp>
#include <fcppt/parse/skipper/basic_literal.hpp>
#include <fcppt/parse/skipper/basic_space.hpp>
#include <fcppt/parse/skipper/epsilon.hpp>
#include <fcppt/parse/skipper/result.hpp>
#include <fcppt/parse/skipper/tag.hpp>
#include <fcppt/parse/skipper/operators/repetition.hpp>
#include <fcppt/parse/skipper/operators/sequence.hpp>
#include <fcppt/tuple/get.hpp>
#include <fcppt/tuple/object_impl.hpp>

#include <functional>
#include <memory>
#include <string>
#include <vector>

namespace c02
{
// ------------------------------------------------------------------ AST
enum kind : int
{
  // leaves
  L_LIT_A,
  L_LIT_B,
  L_CS_AB,
  L_NOT_CS_A, // ~cs{a}
  L_CHAR,
  L_STR_AB,
  L_EPS,
  L_FAIL,
  L_UINT,
  L_INT,
  L_LEX_AB, // lexeme(lit a >> lit b): statically typed, lexeme cannot wrap an erased parser
  L_SEQ_AB, // lit a >> lit b (statically typed; result unit: both elements elided)
  LEAF_END,
  // unary
  U_REP = LEAF_END,
  U_PLUS,
  U_OPT,
  U_NOT,
  U_FATAL,
  U_NAMED,
  U_IGNORE,
  U_CONVERT_IF, // fails (non-fatally) iff the rendered result of the child contains 'b'
  U_SEP,        // separator{p, lit b}
  U_LIST,       // list{lit a, p, lit b, lit a}
  UNARY_END,
  // binary
  B_SEQ = UNARY_END,
  B_ALT,
  KIND_END,
  // only in the statically typed family (cannot wrap a type-erased parser)
  U_LEXEME = KIND_END,
  L_REC, // recursion to the root of the grammar (static family only)
  U_CONVERT_IF_FATAL // like U_CONVERT_IF, but the conversion function reports a FATAL error (static family only)
};

struct ast
{
  int k = L_EPS;
  std::vector<ast> c;
};

inline char const *kind_name(int k)
{
  static char const *n[] = {"lit(a)", "lit(b)", "cs{a,b}", "~cs{a}", "char_", "str(ab)", "eps", "fail", "uint", "int_", "lexeme(lit(a)>>lit(b))",
                            "(lit(a)>>lit(b))", "*", "+", "-", "!", "fatal", "named", "ignore", "convert_if", "sep", "list", ">>", "|"};
  return n[k];
}

inline std::string show(ast const &a)
{
  if (a.k < LEAF_END)
    return kind_name(a.k);
  if (a.k == U_LEXEME)
    return "lexeme(" + show(a.c[0]) + ")";
  if (a.k == L_REC)
    return "<start>";
  if (a.k == U_CONVERT_IF_FATAL)
    return "convert_if_fatal(" + show(a.c[0]) + ")";
  if (a.k < UNARY_END)
    return std::string(kind_name(a.k)) + "(" + show(a.c[0]) + ")";
  return "(" + show(a.c[0]) + " " + kind_name(a.k) + " " + show(a.c[1]) + ")";
}

inline bool uses_numbers(ast const &a)
{
  if (a.k == L_UINT || a.k == L_INT)
    return true;
  for (ast const &x : a.c)
    if (uses_numbers(x))
      return true;
  return false;
}

// nullable = can succeed without consuming input (appendix A)
inline bool nullable(ast const &a)
{
  switch (a.k)
  {
  case L_EPS: return true;
  case U_REP:
  case U_OPT:
  case U_NOT:
  case U_SEP: return true;
  case U_PLUS:
  case U_FATAL:
  case U_NAMED:
  case U_IGNORE:
  case U_LEXEME:
  case U_CONVERT_IF: return nullable(a.c[0]);
  case U_CONVERT_IF_FATAL: return nullable(a.c[0]);
  case U_LIST: return false;
  case B_SEQ: return nullable(a.c[0]) && nullable(a.c[1]);
  case B_ALT: return nullable(a.c[0]) || nullable(a.c[1]);
  default: return false;
  }
}
// well-formed: no repetition of a nullable parser
inline bool well_formed(ast const &a)
{
  if ((a.k == U_REP || a.k == U_PLUS || a.k == U_SEP || a.k == U_LIST) && nullable(a.c[0]))
    return false;
  for (ast const &x : a.c)
    if (!well_formed(x))
      return false;
  return true;
}

// all ASTs with exactly n nodes
inline void gen(int n, std::vector<ast> &out, std::vector<std::vector<ast>> const &by_size)
{
  if (n == 1)
  {
    for (int k = 0; k < LEAF_END; ++k)
      out.push_back(ast{k, {}});
    return;
  }
  for (int k = LEAF_END; k < UNARY_END; ++k)
    for (ast const &c : by_size[static_cast<std::size_t>(n - 1)])
      out.push_back(ast{k, {c}});
  for (int k = UNARY_END; k < KIND_END; ++k)
    for (int l = 1; l <= n - 2; ++l)
      for (ast const &a : by_size[static_cast<std::size_t>(l)])
        for (ast const &b : by_size[static_cast<std::size_t>(n - 1 - l)])
          out.push_back(ast{k, {a, b}});
}

inline std::vector<std::vector<ast>> all_by_size(int maxn)
{
  std::vector<std::vector<ast>> by(static_cast<std::size_t>(maxn) + 1);
  for (int n = 1; n <= maxn; ++n)
    gen(n, by[static_cast<std::size_t>(n)], by);
  return by;
}

// ------------------------------------------------------------------ reference interpreter
enum skipper_kind
{
  SK_EPSILON,
  SK_SPACE,       // *char_set{' ','\n','\t'}
  SK_CS_SPACE,    // char_set{' '}: exactly one
  SK_LIT_SPACE,   // literal(' '): exactly one
  SK_REP_LIT,     // *literal(' ')
  SK_SEQ_LIT_LIT, // literal(' ') >> literal(' ')
  SK_REP_SEQ,     // *(literal(' ') >> literal(' ')): whole pairs only, a trailing single blank is left (rewound)
  SK_SEQ_CS_LIT,  // char_set{' '} >> literal(' '): the char_set takes exactly one character
  SK_REP_CS,      // *char_set{' '}
  SK_END
};
inline char const *skipper_name(int s)
{
  static char const *n[] = {"epsilon", "space", "char_set{' '}", "literal(' ')", "*literal(' ')", "literal(' ')>>literal(' ')",
                            "*(literal(' ')>>literal(' '))", "char_set{' '}>>literal(' ')", "*char_set{' '}"};
  return n[s];
}

struct rres
{
  int status; // 0 ok, 1 fail, 2 fatal
  std::size_t pos;
  std::string val;
};

struct reference
{
  std::string const &s;
  ast const *rec_root = nullptr;
  explicit reference(std::string const &in) : s(in) {}

  // returns new position or npos on failure
  std::size_t skip(int sk, std::size_t i) const
  {
    auto one = [&](std::size_t p) -> std::size_t { return p < s.size() && s[p] == ' ' ? p + 1 : std::string::npos; };
    switch (sk)
    {
    case SK_EPSILON: return i;
    case SK_SPACE:
      while (i < s.size() && (s[i] == ' ' || s[i] == '\n' || s[i] == '\t'))
        ++i;
      return i;
    case SK_CS_SPACE:
    case SK_LIT_SPACE: return one(i);
    case SK_REP_LIT:
    case SK_REP_CS:
      while (i < s.size() && s[i] == ' ')
        ++i;
      return i;
    case SK_REP_SEQ:
      while (i + 1 < s.size() && s[i] == ' ' && s[i + 1] == ' ')
        i += 2;
      return i;
    case SK_SEQ_CS_LIT:
    case SK_SEQ_LIT_LIT:
    {
      std::size_t p = one(i);
      return p == std::string::npos ? p : one(p);
    }
    }
    return i;
  }

  static rres ok(std::size_t p, std::string v) { return rres{0, p, std::move(v)}; }
  static rres fail() { return rres{1, 0, ""}; }
  static rres fatal() { return rres{2, 0, ""}; }

  rres digits_plus(std::size_t i, std::string &out) const
  {
    std::size_t j = i;
    while (j < s.size() && s[j] >= '0' && s[j] <= '9')
      out += s[j++];
    return j == i ? fail() : ok(j, "");
  }

  // `p >> *(d >> p)` with the skipper placement of sequence and repetition; shared by sep/list
  rres sep_inner(ast const &p, std::size_t i, int sk) const
  {
    rres first = run(p, i, sk);
    if (first.status != 0)
      return first;
    std::vector<std::string> vals{first.val};
    std::size_t k = skip(sk, first.pos); // sequence: skipper between inner and the repetition
    if (k == std::string::npos)
      return fail();
    for (;;)
    {
      // element: lit(b) >> p
      if (!(k < s.size() && s[k] == 'b'))
        break;
      std::size_t q = skip(sk, k + 1);
      if (q == std::string::npos)
        break;
      rres e = run(p, q, sk);
      if (e.status == 2)
        return fatal();
      if (e.status != 0)
        break;
      std::size_t after = skip(sk, e.pos); // repetition: skipper after each element
      if (after == std::string::npos)
        break;
      vals.push_back(e.val);
      k = after;
    }
    std::string v = "[";
    for (std::size_t n = 0; n < vals.size(); ++n)
      v += (n ? ";" : "") + vals[n];
    return ok(k, v + "]");
  }

  rres run(ast const &a, std::size_t i, int sk) const
  {
    switch (a.k)
    {
    case L_LIT_A:
    case L_LIT_B:
    {
      char const want = a.k == L_LIT_A ? 'a' : 'b';
      return i < s.size() && s[i] == want ? ok(i + 1, "u") : fail();
    }
    case L_CS_AB: return i < s.size() && (s[i] == 'a' || s[i] == 'b') ? ok(i + 1, std::string(1, s[i])) : fail();
    case L_NOT_CS_A: return i < s.size() && s[i] != 'a' ? ok(i + 1, std::string(1, s[i])) : fail();
    case L_CHAR: return i < s.size() ? ok(i + 1, std::string(1, s[i])) : fail();
    case L_STR_AB: return i + 1 < s.size() && s[i] == 'a' && s[i + 1] == 'b' ? ok(i + 2, "u") : fail();
    case L_EPS: return ok(i, "u");
    case L_FAIL: return fail();
    case L_UINT:
    {
      std::string d;
      rres r = digits_plus(i, d);
      if (r.status != 0)
        return fail();
      // decimal conversion into unsigned: overflow => failure
      unsigned long long v = 0;
      for (char ch : d)
      {
        v = v * 10 + static_cast<unsigned long long>(ch - '0');
        if (v > 4294967295ULL)
          return fail();
      }
      return ok(r.pos, std::to_string(v));
    }
    case L_INT:
    {
      std::size_t j = i;
      bool neg = false;
      if (j < s.size() && s[j] == '-')
      {
        neg = true;
        ++j;
      }
      // sequence inside a lexeme: no skipping between sign and digits
      std::string d;
      rres r = digits_plus(j, d);
      if (r.status != 0)
        return fail();
      long long v = 0;
      for (char ch : d)
      {
        v = v * 10 + (ch - '0');
        if (v > 2147483647LL)
          return fail();
      }
      return ok(r.pos, std::to_string(neg ? -v : v));
    }
    case L_LEX_AB: return i + 1 < s.size() && s[i] == 'a' && s[i + 1] == 'b' ? ok(i + 2, "u") : fail();
    case L_SEQ_AB:
    {
      if (!(i < s.size() && s[i] == 'a'))
        return fail();
      std::size_t j = skip(sk, i + 1);
      if (j == std::string::npos)
        return fail();
      return j < s.size() && s[j] == 'b' ? ok(j + 1, "u") : fail();
    }
    case B_SEQ:
    {
      rres l = run(a.c[0], i, sk);
      if (l.status != 0)
        return l;
      std::size_t j = skip(sk, l.pos);
      if (j == std::string::npos)
        return fail();
      rres r = run(a.c[1], j, sk);
      if (r.status != 0)
        return r;
      return ok(r.pos, "(" + l.val + "," + r.val + ")");
    }
    case B_ALT:
    {
      rres l = run(a.c[0], i, sk);
      if (l.status == 0 || l.status == 2)
        return l;
      return run(a.c[1], i, sk); // from the same position
    }
    case U_REP:
    case U_PLUS:
    {
      std::vector<std::string> vals;
      std::size_t k = i;
      if (a.k == U_PLUS)
      {
        // p >> *p
        rres h = run(a.c[0], i, sk);
        if (h.status != 0)
          return h;
        std::size_t j = skip(sk, h.pos);
        if (j == std::string::npos)
          return fail();
        vals.push_back(h.val);
        k = j;
      }
      for (;;)
      {
        rres e = run(a.c[0], k, sk);
        if (e.status == 2)
          return fatal();
        if (e.status != 0)
          break;
        std::size_t after = skip(sk, e.pos);
        if (after == std::string::npos)
          break; // the element is discarded together with the failed skip
        vals.push_back(e.val);
        k = after;
      }
      std::string v = "[";
      for (std::size_t n = 0; n < vals.size(); ++n)
        v += (n ? ";" : "") + vals[n];
      return ok(k, v + "]");
    }
    case U_OPT:
    {
      rres r = run(a.c[0], i, sk);
      if (r.status == 2)
        return fatal();
      return r.status == 0 ? ok(r.pos, "S" + r.val) : ok(i, "N");
    }
    case U_NOT:
    {
      rres r = run(a.c[0], i, sk);
      return r.status == 0 ? fail() : ok(i, "u");
    }
    case U_FATAL:
    {
      rres r = run(a.c[0], i, sk);
      return r.status == 0 ? r : fatal();
    }
    case U_NAMED: return run(a.c[0], i, sk); // same outcome, including the fatal flag
    case U_LEXEME: return run(a.c[0], i, SK_EPSILON);
    case L_REC: return run(*rec_root, i, sk);
    case U_IGNORE:
    {
      rres r = run(a.c[0], i, sk);
      return r.status == 0 ? ok(r.pos, "u") : r;
    }
    case U_CONVERT_IF:
    {
      rres r = run(a.c[0], i, sk);
      if (r.status != 0)
        return r;
      return r.val.find('b') != std::string::npos ? fail() : ok(r.pos, "<" + r.val + ">");
    }
    case U_CONVERT_IF_FATAL:
    {
      rres r = run(a.c[0], i, sk);
      if (r.status != 0)
        return r;
      return r.val.find('b') != std::string::npos ? fatal() : ok(r.pos, "<" + r.val + ">");
    }
    case U_SEP:
    {
      // -(p >> *(lit(b) >> p))
      rres r = sep_inner(a.c[0], i, sk);
      if (r.status == 2)
        return fatal();
      return r.status == 0 ? r : ok(i, "[]");
    }
    case U_LIST:
    {
      // lit(a) >> ( (lit(a) => []) | (sep >> lit(a)) )
      if (!(i < s.size() && s[i] == 'a'))
        return fail();
      std::size_t j = skip(sk, i + 1);
      if (j == std::string::npos)
        return fail();
      if (j < s.size() && s[j] == 'a')
        return ok(j + 1, "[]");
      rres r = sep_inner(a.c[0], j, sk);
      std::size_t after_sep;
      std::string v;
      if (r.status == 2)
        return fatal();
      if (r.status == 0)
      {
        after_sep = r.pos;
        v = r.val;
      }
      else
      {
        after_sep = j;
        v = "[]";
      }
      std::size_t q = skip(sk, after_sep);
      if (q == std::string::npos)
        return fail();
      return q < s.size() && s[q] == 'a' ? ok(q + 1, v) : fail();
    }
    }
    return fail();
  }

  // phrase_parse_string: skipper at the start, then the parser; success iff everything was consumed
  rres phrase(ast const &a, int sk) const
  {
    std::size_t j = skip(sk, 0);
    if (j == std::string::npos)
      return fail();
    rres r = run(a, j, sk);
    if (r.status != 0)
      return r;
    return r.pos == s.size() ? r : fail();
  }
};

// ------------------------------------------------------------------ the real thing
template <class Ch> struct dyn_skipper : fcppt::parse::skipper::tag
{
  using fn_type = std::function<fcppt::parse::skipper::result<Ch>(fcppt::reference<fcppt::parse::basic_stream<Ch>>)>;
  fn_type fn;
  explicit dyn_skipper(fn_type f) : fn(std::move(f)) {}
  template <class C> fcppt::parse::skipper::result<C> skip(fcppt::reference<fcppt::parse::basic_stream<C>> const s) const { return fn(s); }
};

template <class Ch> dyn_skipper<Ch> make_skipper(int sk)
{
  namespace sp = fcppt::parse::skipper;
  Ch const space = static_cast<Ch>(' ');
  switch (sk)
  {
  case SK_SPACE:
  {
    auto s = std::make_shared<decltype(sp::basic_space<Ch>())>(sp::basic_space<Ch>());
    return dyn_skipper<Ch>{[s](auto st) { return s->skip(st); }};
  }
  case SK_CS_SPACE:
  {
    auto s = std::make_shared<sp::basic_char_set<Ch>>(sp::basic_char_set<Ch>{space});
    return dyn_skipper<Ch>{[s](auto st) { return s->skip(st); }};
  }
  case SK_LIT_SPACE:
  {
    auto s = std::make_shared<sp::basic_literal<Ch>>(space);
    return dyn_skipper<Ch>{[s](auto st) { return s->skip(st); }};
  }
  case SK_REP_LIT:
  {
    auto v = *sp::basic_literal<Ch>{space};
    auto s = std::make_shared<decltype(v)>(std::move(v));
    return dyn_skipper<Ch>{[s](auto st) { return s->skip(st); }};
  }
  case SK_SEQ_LIT_LIT:
  {
    auto v = sp::basic_literal<Ch>{space} >> sp::basic_literal<Ch>{space};
    auto s = std::make_shared<decltype(v)>(std::move(v));
    return dyn_skipper<Ch>{[s](auto st) { return s->skip(st); }};
  }
  case SK_REP_SEQ:
  {
    auto v = *(sp::basic_literal<Ch>{space} >> sp::basic_literal<Ch>{space});
    auto s = std::make_shared<decltype(v)>(std::move(v));
    return dyn_skipper<Ch>{[s](auto st) { return s->skip(st); }};
  }
  case SK_SEQ_CS_LIT:
  {
    auto v = sp::basic_char_set<Ch>{space} >> sp::basic_literal<Ch>{space};
    auto s = std::make_shared<decltype(v)>(std::move(v));
    return dyn_skipper<Ch>{[s](auto st) { return s->skip(st); }};
  }
  case SK_REP_CS:
  {
    auto v = *sp::basic_char_set<Ch>{space};
    auto s = std::make_shared<decltype(v)>(std::move(v));
    return dyn_skipper<Ch>{[s](auto st) { return s->skip(st); }};
  }
  default:
  {
    auto s = std::make_shared<sp::epsilon>();
    return dyn_skipper<Ch>{[s](auto st) { return s->skip(st); }};
  }
  }
}

template <class Ch> struct family
{
  using R = std::string; // canonical rendering of every node's result
  using Sk = dyn_skipper<Ch>;
  using base_t = fcppt::parse::base<R, Ch, Sk>;
  using ptr = fcppt::parse::base_unique_ptr<R, Ch, Sk>;
  using str = std::basic_string<Ch>;

  struct arena
  {
    std::vector<ptr> nodes;
  };

  static Ch c(char x) { return static_cast<Ch>(x); }
  static std::string narrow1(Ch x) { return std::string(1, static_cast<char>(x)); }

  template <class P> static base_t const &keep(arena &ar, P &&parser)
  {
    ar.nodes.push_back(fcppt::parse::make_base<Ch, Sk>(std::forward<P>(parser)));
    return *ar.nodes.back().get_pointer();
  }

  static std::string join(std::vector<R> const &v)
  {
    std::string o = "[";
    for (std::size_t n = 0; n < v.size(); ++n)
      o += (n ? ";" : "") + v[n];
    return o + "]";
  }

  static base_t const &build(ast const &a, arena &ar)
  {
    namespace p = fcppt::parse;
    auto unit_str = [](fcppt::unit) { return R("u"); };
    switch (a.k)
    {
    case L_LIT_A: return keep(ar, p::make_convert(p::basic_literal<Ch>{c('a')}, unit_str));
    case L_LIT_B: return keep(ar, p::make_convert(p::basic_literal<Ch>{c('b')}, unit_str));
    case L_CS_AB: return keep(ar, p::make_convert(p::basic_char_set<Ch>{c('a'), c('b')}, [](Ch x) { return narrow1(x); }));
    case L_NOT_CS_A: return keep(ar, p::make_convert(~p::basic_char_set<Ch>{c('a')}, [](Ch x) { return narrow1(x); }));
    case L_CHAR: return keep(ar, p::make_convert(p::basic_char<Ch>{}, [](Ch x) { return narrow1(x); }));
    case L_STR_AB: return keep(ar, p::make_convert(p::basic_string<Ch>{str{c('a'), c('b')}}, unit_str));
    case L_EPS: return keep(ar, p::make_convert(p::epsilon{}, unit_str));
    case L_FAIL: return keep(ar, p::make_convert(p::fail<fcppt::unit>{}, unit_str));
    case L_UINT: return keep(ar, p::make_convert(p::uint<unsigned>{}, [](unsigned v) { return std::to_string(v); }));
    case L_INT: return keep(ar, p::make_convert(p::int_<int>{}, [](int v) { return std::to_string(v); }));
    case L_LEX_AB:
      return keep(ar, p::make_convert(p::make_lexeme(p::basic_literal<Ch>{c('a')} >> p::basic_literal<Ch>{c('b')}), unit_str));
    case L_SEQ_AB: return keep(ar, p::make_convert(p::basic_literal<Ch>{c('a')} >> p::basic_literal<Ch>{c('b')}, unit_str));
    default: break;
    }
    base_t const &x = build(a.c[0], ar);
    auto X = [&x] { return fcppt::make_cref(x); };
    switch (a.k)
    {
    case U_REP: return keep(ar, p::make_convert(*X(), [](std::vector<R> &&v) { return join(v); }));
    case U_PLUS: return keep(ar, p::make_convert(+X(), [](std::vector<R> &&v) { return join(v); }));
    case U_OPT:
      return keep(ar, p::make_convert(-X(), [](fcppt::optional::object<R> &&o) { return o.has_value() ? "S" + o.get_unsafe() : R("N"); }));
    case U_NOT: return keep(ar, p::make_convert(!p::make_ignore(X()), unit_str));
    case U_FATAL: return keep(ar, p::make_fatal(X()));
    case U_NAMED: return keep(ar, p::named{X(), str{c('n')}});
    case U_IGNORE: return keep(ar, p::make_convert(p::make_ignore(X()), unit_str));
    case U_CONVERT_IF:
      return keep(ar, p::make_convert_if(X(), [](R &&r) -> p::result<Ch, R> {
                    if (r.find('b') != std::string::npos)
                      return p::result<Ch, R>{p::error<Ch>{str{c('n'), c('o')}}};
                    return p::make_success<Ch>("<" + r + ">");
                  }));
    case U_SEP: return keep(ar, p::make_convert(p::separator{X(), p::basic_literal<Ch>{c('b')}}, [](std::vector<R> &&v) { return join(v); }));
    case U_LIST:
      return keep(ar, p::make_convert(p::list{p::basic_literal<Ch>{c('a')}, X(), p::basic_literal<Ch>{c('b')}, p::basic_literal<Ch>{c('a')}},
                                      [](std::vector<R> &&v) { return join(v); }));
    default: break;
    }
    base_t const &y = build(a.c[1], ar);
    auto Y = [&y] { return fcppt::make_cref(y); };
    if (a.k == B_SEQ)
      return keep(ar, p::make_convert(X() >> Y(), [](fcppt::tuple::object<R, R> &&t) {
                    return "(" + fcppt::tuple::get<0>(t) + "," + fcppt::tuple::get<1>(t) + ")";
                  }));
    return keep(ar, X() | Y()); // variant<R,R> collapses to R
  }

  // returns status (0 ok, 1 fail, 2 fatal) and value
  static rres run_real(base_t const &parser, std::string const &input, Sk const &sk)
  {
    str in;
    for (char ch : input)
      in.push_back(c(ch));
    auto res = fcppt::parse::phrase_parse_string(parser, std::move(in), sk);
    return fcppt::either::match(
        res, [](fcppt::parse::error<Ch> const &e) { return rres{e.is_fatal() ? 2 : 1, 0, ""}; },
        [](R const &v) { return rres{0, 0, v}; });
  }
};

// all strings over an alphabet up to a length
inline std::vector<std::string> all_strings(std::string const &alphabet, int maxlen)
{
  std::vector<std::string> out{""};
  std::size_t lo = 0;
  for (int l = 1; l <= maxlen; ++l)
  {
    std::size_t hi = out.size();
    for (std::size_t i = lo; i < hi; ++i)
      for (char ch : alphabet)
        out.push_back(out[i] + ch);
    lo = hi;
  }
  return out;
}

// case descriptions must be plain text: bytes outside the printable range are written as \xNN
inline std::string printable(std::string const &in)
{
  std::string o;
  for (char ch : in)
  {
    unsigned char const u = static_cast<unsigned char>(ch);
    if (u >= 0x20 && u < 0x7f)
      o += ch;
    else
    {
      char buf[8];
      std::snprintf(buf, sizeof buf, "\\x%02X", static_cast<unsigned>(u));
      o += buf;
    }
  }
  return o;
}

// run one block of ASTs x skippers x inputs
template <class Ch>
void run_block(char const *tag, std::vector<ast> const &asts, std::size_t part, std::size_t nparts, std::vector<int> const &skippers,
               int maxlen_plain, int maxlen_num, bool bytes = false)
{
  using F = family<Ch>;
  std::vector<std::string> plain = all_strings("ab ", maxlen_plain);
  std::vector<std::string> num = all_strings("ab 1-", maxlen_num);
  if (bytes)
  {
    // characters outside every grammar's alphabet whose values collide with special values of the stream layer
    // (0xFF: (char)EOF; 0x00; 0x80: first negative char) before and after every short input: for the reference
    // they are ordinary characters that no leaf matches
    for (std::string const &in : all_strings("ab ", 2))
      for (char b : {static_cast<char>(0xFF), static_cast<char>(0x00), static_cast<char>(0x80)})
        for (std::string const &x : {in + b, b + in, in + b + b})
        {
          plain.push_back(x);
          num.push_back(x);
        }
  }
  std::vector<dyn_skipper<Ch>> sks;
  for (int s : skippers)
    sks.push_back(make_skipper<Ch>(s));
  std::size_t idx = 0;
  for (ast const &a : asts)
  {
    if (!well_formed(a))
      continue;
    if (idx++ % nparts != part)
      continue;
    if (vrt::out_of_time())
      return;
    vrt::count("grammars");
    std::string const gs = show(a);
    typename F::arena ar;
    bool built = false;
    typename F::base_t const *parser = nullptr;
    std::vector<std::string> const &inputs = uses_numbers(a) ? num : plain;
    for (std::size_t si = 0; si < skippers.size(); ++si)
      for (std::string const &in : inputs)
      {
        if (!vrt::begin_text(tag, "grammar " + gs + " skipper " + skipper_name(skippers[si]) + " input \"" + printable(in) + "\""))
          continue;
        if (!built)
        {
          parser = &F::build(a, ar);
          built = true;
        }
        reference ref(in);
        rres const want = ref.phrase(a, skippers[si]);
        rres const got = F::run_real(*parser, in, sks[si]);
        vrt::nontrivial(want.status == 0 || want.status == 2);
        vrt::maybe_sample();
        std::string const top = kind_name(a.k);
        if (got.status != want.status)
          vrt::fail(std::string("outcome:") + top,
                    vrt::fmt("status %d (0 ok,1 fail,2 fatal), reference %d; value '%s' vs '%s'", got.status, want.status, got.val.c_str(), want.val.c_str()));
        else if (got.status == 0 && got.val != want.val)
          vrt::fail(std::string("value:") + top, "value '" + got.val + "', reference '" + want.val + "'");
      }
  }
}
} // namespace c02

// C16 -- algorithm and container helpers equal their straightforward reference.
// Engine E: exhaustive enumeration of all sequences over {0,1,2} up to length 7 (quick: 5), all strings over
// {a,b,#} up to length 8 (quick: 6), all maps over 6 (quick: 4) keys, all predicates / element functions on the
// 3-element domain, for every listed source kind; reference = hand-written loops over std:: containers.
// Lvalue arguments of array::append/join/push_back and tuple::concat are compile probes (C16_probe_*.cpp).
//
// The shards live in C16_algorithm.cpp (map, map_optional, map_concat, fold, fold_break, loop, loop_break, all_of,
// contains(_if), generate_n, repeat), C16_algorithm2.cpp (find_*, index_of, equal_range, binary_search, remove(_if),
// unique(_if), reverse, split_string/join_strings, map_iteration(_second), sequence_iteration), C16_container.cpp
// (join, at_optional, find_opt*, get_or_insert*, key_set, map_values_*, set_*, index_map) and C16_array_tuple.cpp
// (array::*, tuple::*, algorithm::map/loop/fold on arrays, tuples and mpl lists); C16_hetero.cpp runs every function
// that takes a value / key / index / delimiter / state next to a range with a value of another type (C16_hetero.hpp
// holds the calls, C16_probe_hetero.cpp compiles each family on its own as a compile probe).
// C16_callbacks.cpp: callbacks that throw at their k-th call, look at or re-enter the container they are inserted
// into.  Ranges of every iterator category (single-pass, forward, bidirectional, random access, all without size())
// run through the map/fold/loop/predicate/find checks of C16_algorithm*.cpp.
#include "C16_common.hpp"

int main(int argc, char **argv)
{
  c16::register_algorithm_shards();
  c16::register_algorithm2_shards();
  c16::register_container_shards();
  c16::register_array_tuple_shards();
  c16::register_hetero_shards();
  c16::register_callback_shards();
  return vrt::run(argc, argv);
}

// C06 -- checked conversions and integer helpers equal their mathematical definition.
// Engine E: exhaustive enumeration against an __int128 oracle.
#include <vrt.hpp>

#include <fcppt/bit/mask.hpp>
#include <fcppt/bit/shift_count.hpp>
#include <fcppt/bit/shifted_mask.hpp>
#include <fcppt/bit/test.hpp>
#include <fcppt/bit/mask_c.hpp>
#include <fcppt/bit/shifted_mask_c.hpp>
#include <fcppt/cast/size.hpp>
#include <fcppt/cast/to_signed.hpp>
#include <fcppt/cast/to_unsigned.hpp>
#include <fcppt/cast/truncation_check.hpp>
#include <fcppt/enum/from_int.hpp>
#include <fcppt/math/ceil_div.hpp>
#include <fcppt/math/ceil_div_signed.hpp>
#include <fcppt/math/clamp.hpp>
#include <fcppt/math/diff.hpp>
#include <fcppt/math/div.hpp>
#include <fcppt/math/interval_distance.hpp>
#include <fcppt/math/is_power_of_2.hpp>
#include <fcppt/math/log2.hpp>
#include <fcppt/math/mod.hpp>
#include <fcppt/math/next_power_of_2.hpp>
#include <fcppt/math/power_of_2.hpp>
#include <fcppt/optional/object_impl.hpp>
#include <fcppt/tuple/make.hpp>

#include <cmath>
#include <cstdint>
#include <cstdio>
#include <set>
#include <limits>
#include <type_traits>
#include <vector>

using i128 = __int128;
using u8 = std::uint8_t;
using i8 = std::int8_t;
using u16 = std::uint16_t;
using i16 = std::int16_t;
using u32 = std::uint32_t;
using i32 = std::int32_t;
using u64 = std::uint64_t;
using i64 = std::int64_t;

template <class T> constexpr i128 lo() { return static_cast<i128>(std::numeric_limits<T>::min()); }
template <class T> constexpr i128 hi() { return static_cast<i128>(std::numeric_limits<T>::max()); }
template <class T> constexpr bool fits(i128 v) { return v >= lo<T>() && v <= hi<T>(); }

template <class T> struct tname;
#define TN(T)                                   \
  template <> struct tname<T>                   \
  {                                             \
    static constexpr char const *v = #T;        \
  };
TN(u8) TN(i8) TN(u16) TN(i16) TN(u32) TN(i32) TN(u64) TN(i64) TN(char8_t) TN(char16_t) TN(char32_t)

// the boundary lattice of T: 0, +-1, +-(2^k-1), +-2^k, +-(2^k+1), min, max, min+1, max-1
template <class T> std::vector<T> lattice()
{
  std::set<i128> s;
  auto add = [&](i128 v) {
    if (fits<T>(v))
      s.insert(v);
  };
  for (i128 d : {i128(0), i128(1), i128(2), i128(3), i128(5), i128(7), i128(10), i128(100)})
  {
    add(d);
    add(-d);
  }
  for (int k = 1; k <= 64; ++k)
  {
    i128 p = i128(1) << k;
    for (i128 d : {i128(-1), i128(0), i128(1)})
    {
      add(p + d);
      add(-(p + d));
    }
  }
  add(lo<T>());
  add(lo<T>() + 1);
  add(hi<T>());
  add(hi<T>() - 1);
  add(hi<T>() / 2);
  add(hi<T>() / 2 + 1);
  add(hi<T>() / 3);
  std::vector<T> r;
  for (i128 v : s)
    r.push_back(static_cast<T>(v));
  return r;
}

// the domain enumerated for T: every value for 8/16 bit, the lattice otherwise
template <class T> std::vector<T> domain()
{
  if constexpr (sizeof(T) <= 2)
  {
    std::vector<T> r;
    for (i128 v = lo<T>(); v <= hi<T>(); ++v)
      r.push_back(static_cast<T>(v));
    return r;
  }
  else
    return lattice<T>();
}

// a reduced domain for pair/triple products of 16-bit types in the quick tier
template <class T> std::vector<T> pair_domain()
{
  if constexpr (sizeof(T) == 1)
    return domain<T>();
  else if constexpr (sizeof(T) == 2)
    return vrt::thorough() ? domain<T>() : lattice<T>();
  else
    return lattice<T>();
}

static inline std::int64_t as64(i128 v) { return static_cast<std::int64_t>(v); }

// ------------------------------------------------------------ truncation_check
template <class Dest, class Source> void tc_pair()
{
  static std::string const name = std::string("truncation_check<") + tname<Dest>::v + ">(" + tname<Source>::v + ")";
  for (Source s : domain<Source>())
  {
    if (!vrt::begin(name.c_str(), s))
      continue;
    i128 const exact = static_cast<i128>(s);
    bool const repr = fits<Dest>(exact);
    vrt::nontrivial(!std::is_same_v<Dest, Source> &&
                    (exact == lo<Dest>() || exact == hi<Dest>() || exact == hi<Dest>() + 1 ||
                     exact == lo<Dest>() - 1 || exact < 0 || exact > hi<Dest>() / 2));
    vrt::maybe_sample();
    fcppt::optional::object<Dest> const r = fcppt::cast::truncation_check<Dest>(s);
    if (repr)
    {
      VRT_CHECK(r.has_value(), name + ":missing", "representable value %lld gave nothing", (long long)as64(exact));
      if (r.has_value())
        VRT_CHECK(static_cast<i128>(r.get_unsafe()) == exact, name + ":wrong_value", "got %lld want %lld",
                  (long long)r.get_unsafe(), (long long)as64(exact));
    }
    else
      VRT_CHECK(!r.has_value(), name + ":spurious", "unrepresentable value %lld gave %lld", (long long)as64(exact),
                (long long)(r.has_value() ? (long long)r.get_unsafe() : 0));
  }
}

template <class Dest> void tc_dest()
{
  tc_pair<Dest, u8>();
  tc_pair<Dest, i8>();
  tc_pair<Dest, u16>();
  tc_pair<Dest, i16>();
  tc_pair<Dest, u32>();
  tc_pair<Dest, i32>();
  tc_pair<Dest, u64>();
  tc_pair<Dest, i64>();
}

// ------------------------------------------------------------ enum from_int
enum class e8_3 : std::uint8_t { a, b, c, fcppt_maximum = c };
enum class e8_1 : std::uint8_t { a, fcppt_maximum = a };
enum class e8s_5 : std::int8_t { a, b, c, d, e, fcppt_maximum = e };
enum class e16_9 : std::uint16_t { a, b, c, d, e, f, g, h, i, fcppt_maximum = i };
enum class e32_4 : std::uint32_t { a, b, c, d, fcppt_maximum = d };
enum class eint_2 { a, b, fcppt_maximum = b };
enum class e8_200 : std::uint8_t { first = 0, fcppt_maximum = 199 };
enum class e64_3 : std::uint64_t { a, b, c, fcppt_maximum = c };
// sizes around the ranges of the 8- and 16-bit value types (the size does not fit the value type)
enum class e16_255 : std::uint16_t { first = 0, fcppt_maximum = 254 };
enum class e16_256 : std::uint16_t { first = 0, fcppt_maximum = 255 };
enum class e16_257 : std::uint16_t { first = 0, fcppt_maximum = 256 };
enum class e16_300 : std::uint16_t { first = 0, fcppt_maximum = 299 };
enum class e16_512 : std::uint16_t { first = 0, fcppt_maximum = 511 };
enum class e32_65535 : std::uint32_t { first = 0, fcppt_maximum = 65534 };
enum class e32_65536 : std::uint32_t { first = 0, fcppt_maximum = 65535 };
enum class e32_65537 : std::uint32_t { first = 0, fcppt_maximum = 65536 };
enum class e32_70000 : std::uint32_t { first = 0, fcppt_maximum = 69999 };
enum class e64_2p32 : std::uint64_t { first = 0, fcppt_maximum = 4294967295ULL };
enum class e64_2p32p1 : std::uint64_t { first = 0, fcppt_maximum = 4294967296ULL };

template <class E, class V> void from_int_pair(char const *ename, i128 size)
{
  static std::string const name = std::string("from_int<") + ename + ">(" + tname<V>::v + ")";
  std::vector<V> dom = domain<V>();
  for (i128 d = -3; d <= 3; ++d) // the values around the enum's size, whatever the width of V
    for (i128 base : {size, size / 2, size + 256, size + 65536, size + (i128(1) << 32)})
      if (fits<V>(base + d))
        dom.push_back(static_cast<V>(base + d));
  for (V v : dom)
  {
    if (!vrt::begin(name.c_str(), v))
      continue;
    i128 const exact = static_cast<i128>(v);
    bool const in = exact < size;
    vrt::nontrivial(exact >= size - 1); // at or beyond the boundary
    vrt::maybe_sample();
    fcppt::optional::object<E> const r = fcppt::enum_::from_int<E>(v);
    if (in)
    {
      VRT_CHECK(r.has_value(), name + ":missing", "value %lld below size %lld gave nothing", (long long)as64(exact),
                (long long)as64(size));
      if (r.has_value())
        VRT_CHECK(static_cast<i128>(static_cast<std::underlying_type_t<E>>(r.get_unsafe())) == exact,
                  name + ":wrong_value", "wrong enumerator for %lld", (long long)as64(exact));
    }
    else
      VRT_CHECK(!r.has_value(), name + ":spurious", "value %lld >= size %lld gave enumerator %lld",
                (long long)as64(exact), (long long)as64(size),
                (long long)(r.has_value() ? static_cast<long long>(static_cast<std::underlying_type_t<E>>(r.get_unsafe())) : -1));
  }
}

template <class E> void from_int_enum(char const *ename, i128 size)
{
  from_int_pair<E, u8>(ename, size);
  from_int_pair<E, u16>(ename, size);
  from_int_pair<E, u32>(ename, size);
  from_int_pair<E, u64>(ename, size);
}

// ------------------------------------------------------------ div with operands of two different types
// div<L,R> is dividend / divisor in the common type C of L and R.  Checked wherever that is the mathematical
// quotient: both operand values are representable in C (no sign-changing conversion) and so is the quotient;
// a zero divisor gives nothing, every other divisor gives a value.
template <class L, class R> void div_mixed()
{
  using C = decltype(std::declval<L>() / std::declval<R>());
  static std::string const n = std::string("div<") + tname<L>::v + "," + tname<R>::v + ">";
  auto const la = pair_domain<L>();
  auto const ra = pair_domain<R>();
  for (L a : la)
    for (R b : ra)
    {
      i128 const A = static_cast<i128>(a), B = static_cast<i128>(b);
      if (!fits<C>(A) || !fits<C>(B))
        continue;
      if (B != 0 && !fits<C>(A / B))
        continue; // min / -1
      if (!vrt::begin(n.c_str(), a, b))
        continue;
      vrt::nontrivial(B != 0 && (A == lo<C>() || B == hi<R>() || B == -1));
      vrt::maybe_sample();
      auto const r = fcppt::math::div(a, b);
      if (B == 0)
        VRT_CHECK(!r.has_value(), n + ":zero", "div by zero returned a value");
      else
        VRT_CHECK(r.has_value() && static_cast<i128>(r.get_unsafe()) == A / B, n + ":wrong", "got %lld (has_value %d) want %lld",
                  (long long)(r.has_value() ? as64(static_cast<i128>(r.get_unsafe())) : 0), int(r.has_value()), (long long)as64(A / B));
    }
}
template <class L> void div_mixed_left()
{
  div_mixed<L, u8>();
  div_mixed<L, i8>();
  div_mixed<L, u16>();
  div_mixed<L, i16>();
  div_mixed<L, u32>();
  div_mixed<L, i32>();
  div_mixed<L, u64>();
  div_mixed<L, i64>();
}

// ------------------------------------------------------------ floating-point mod
// math::mod<F> is documented as std::fmod: the exact remainder with the sign of the dividend.  Every
// operand here is a multiple of 1/4 with magnitude below 2^120, so the exact result is
// ((4|a|) mod (4b)) / 4 in 128-bit integer arithmetic (always representable, as fmod's result is).
using u128 = unsigned __int128;
template <class F> std::vector<F> float_domain()
{
  std::set<F> s;
  for (int i = 0; i <= 260; ++i)
    s.insert(static_cast<F>(i) / 4);
  for (int k = 7; k <= 118; ++k)
  {
    F const p = std::ldexp(F(1), k);
    for (F v : {p, std::nextafter(p, F(0)), std::nextafter(p, std::numeric_limits<F>::infinity()), p - 1, p + 1, p + std::ldexp(F(1), k - 1), p * F(1.25)})
      if (v * 4 == std::floor(v * 4))
        s.insert(v);
  }
  for (F v : {F(1e3), F(1e6), F(1e9), F(1e12), F(1e15), F(1e17), F(1e18), F(1e19), F(3e20), F(7e22), F(16777216), F(16777217), F(9007199254740992.0), F(9007199254740993.0)})
    if (v * 4 == std::floor(v * 4))
      s.insert(v);
  return std::vector<F>(s.begin(), s.end());
}
template <class F> void float_mod(char const *tn)
{
  std::string const n = std::string("mod<") + tn + ">";
  auto const dom = float_domain<F>();
  vrt::info("float_mod_domain_" + std::string(tn), std::to_string(dom.size()));
  for (F a0 : dom)
    for (int sign = 0; sign < 2; ++sign)
      for (F b : dom)
      {
        F const a = sign ? -a0 : a0;
        if (sign && a0 == 0)
          continue;
        if (!vrt::begin_text(n.c_str(), [&] {
              char buf[128];
              std::snprintf(buf, sizeof buf, "%s(%.21Lg, %.21Lg)", n.c_str(), static_cast<long double>(a), static_cast<long double>(b));
              return std::string(buf);
            }()))
          continue;
        auto const r = fcppt::math::mod(a, b);
        if (b == 0)
        {
          VRT_CHECK(!r.has_value(), n + ":zero", "mod by zero returned a value");
          continue;
        }
        u128 const A = static_cast<u128>(a0 * 4), B = static_cast<u128>(b * 4);
        F const want = (sign ? -1 : 1) * (static_cast<F>(A % B) / 4);
        vrt::nontrivial(a0 / b > std::ldexp(F(1), std::numeric_limits<F>::digits));
        vrt::maybe_sample();
        VRT_CHECK(r.has_value() && r.get_unsafe() == want, n + ":wrong", "got %.21Lg, exact remainder %.21Lg",
                  static_cast<long double>(r.has_value() ? r.get_unsafe() : F(-1)), static_cast<long double>(want));
      }
}

// ------------------------------------------------------------ unary helpers
template <class T> void unary_unsigned()
{
  static std::string const n_ip2 = std::string("is_power_of_2<") + tname<T>::v + ">";
  static std::string const n_np2 = std::string("next_power_of_2<") + tname<T>::v + ">";
  static std::string const n_log = std::string("log2<") + tname<T>::v + ">";
  constexpr int bits = static_cast<int>(sizeof(T) * 8);
  for (T x : domain<T>())
  {
    i128 const X = static_cast<i128>(x);
    // reference: floor(log2), is power, next power
    int fl = -1;
    for (int k = 0; k < bits; ++k)
      if ((X >> k) != 0)
        fl = k;
    bool const ispow = X != 0 && (X & (X - 1)) == 0;
    i128 next = 1;
    while (next < X)
      next <<= 1;
    if (vrt::begin(n_ip2.c_str(), x))
    {
      vrt::nontrivial(ispow || X == 0 || X == hi<T>());
      VRT_CHECK(fcppt::math::is_power_of_2(x) == ispow, n_ip2 + ":wrong", "is_power_of_2 wrong");
    }
    if (fits<T>(next) && vrt::begin(n_np2.c_str(), x))
    {
      vrt::nontrivial(!ispow);
      vrt::maybe_sample();
      T const r = fcppt::math::next_power_of_2(x);
      VRT_CHECK(static_cast<i128>(r) == next, n_np2 + ":wrong", "got %llu want %llu", (unsigned long long)r,
                (unsigned long long)next);
    }
    if (X != 0 && vrt::begin(n_log.c_str(), x)) // log2(0) is documented as undefined
    {
      vrt::nontrivial(!ispow);
      T const r = fcppt::math::log2(x);
      VRT_CHECK(static_cast<int>(r) == fl, n_log + ":wrong", "got %llu want %d", (unsigned long long)r, fl);
    }
  }
}

template <class R> void power_of_2_all()
{
  static std::string const n = std::string("power_of_2<") + tname<R>::v + ">";
  constexpr unsigned bits = sizeof(R) * 8;
  constexpr unsigned usable = std::is_signed_v<R> ? bits - 1 : bits;
  for (unsigned e = 0; e < usable; ++e) // 2^e representable in R
  {
    if (!vrt::begin(n.c_str(), e))
      continue;
    vrt::nontrivial(e > 0);
    i128 const want = i128(1) << e;
    VRT_CHECK(static_cast<i128>(fcppt::math::power_of_2<R>(e)) == want, n + ":wrong", "2^%u wrong", e);
    VRT_CHECK(static_cast<i128>(fcppt::math::power_of_2<R>(static_cast<std::uint8_t>(e))) == want, n + ":wrong_u8exp",
              "2^%u wrong (u8 exponent)", e);
    if constexpr (std::is_unsigned_v<R>)
    {
      // bit mask helpers: shifted_mask has exactly bit e; test() sees exactly that bit
      fcppt::bit::mask<R> const m = fcppt::bit::shifted_mask<R>(fcppt::bit::shift_count{e});
      VRT_CHECK(static_cast<i128>(m.get()) == want, n + ":shifted_mask", "mask of bit %u wrong", e);
      for (unsigned b = 0; b < bits; ++b)
      {
        R const v = static_cast<R>(R(1) << b);
        VRT_CHECK(fcppt::bit::test(v, m) == (b == e), n + ":bit_test", "test(1<<%u, mask %u)", b, e);
        VRT_CHECK(fcppt::bit::test(static_cast<R>(~v), m) == (b != e), n + ":bit_test_inv", "test(~(1<<%u), mask %u)", b, e);
      }
    }
  }
}

// ------------------------------------------------------------ binary helpers
template <class T> void binary_unsigned(unsigned part = 0, unsigned nparts = 1)
{
  static std::string const n_mod = std::string("mod<") + tname<T>::v + ">";
  static std::string const n_div = std::string("div<") + tname<T>::v + ">";
  static std::string const n_diff = std::string("diff<") + tname<T>::v + ">";
  auto const dom = pair_domain<T>();
  std::size_t ai = 0;
  for (T a : dom)
  {
    if (ai++ % nparts != part)
      continue;
    if (vrt::out_of_time())
      return;
    for (T b : dom)
    {
      i128 const A = a, B = b;
      if (vrt::begin(n_mod.c_str(), a, b))
      {
        vrt::nontrivial(B != 0 && A >= B);
        auto const r = fcppt::math::mod(a, b);
        if (B == 0)
          VRT_CHECK(!r.has_value(), n_mod + ":zero", "mod by zero returned a value");
        else
          VRT_CHECK(r.has_value() && static_cast<i128>(r.get_unsafe()) == A % B, n_mod + ":wrong", "mod wrong");
      }
      if (vrt::begin(n_div.c_str(), a, b))
      {
        vrt::nontrivial(B != 0 && A >= B);
        auto const r = fcppt::math::div(a, b);
        if (B == 0)
          VRT_CHECK(!r.has_value(), n_div + ":zero", "div by zero returned a value");
        else
          VRT_CHECK(r.has_value() && static_cast<i128>(r.get_unsafe()) == A / B, n_div + ":wrong", "div wrong");
      }
      if (vrt::begin(n_diff.c_str(), a, b))
      {
        vrt::nontrivial(A != B);
        vrt::maybe_sample();
        i128 const want = A > B ? A - B : B - A;
        T const r = fcppt::math::diff(a, b);
        VRT_CHECK(static_cast<i128>(r) == want, n_diff + ":wrong", "got %llu want %llu", (unsigned long long)r,
                  (unsigned long long)want);
      }
    }
  }
}

template <class T> void binary_signed(unsigned part = 0, unsigned nparts = 1)
{
  static std::string const n_div = std::string("div<") + tname<T>::v + ">";
  static std::string const n_diff = std::string("diff<") + tname<T>::v + ">";
  auto const dom = pair_domain<T>();
  using R = decltype(T{} / T{});
  std::size_t ai = 0;
  for (T a : dom)
  {
    if (ai++ % nparts != part)
      continue;
    if (vrt::out_of_time())
      return;
    for (T b : dom)
    {
      i128 const A = a, B = b;
      if ((B == 0 || fits<R>(A / B)) && vrt::begin(n_div.c_str(), a, b))
      {
        vrt::nontrivial(B != 0 && (A < 0 || B < 0));
        auto const r = fcppt::math::div(a, b);
        if (B == 0)
          VRT_CHECK(!r.has_value(), n_div + ":zero", "div by zero returned a value");
        else
          VRT_CHECK(r.has_value() && static_cast<i128>(r.get_unsafe()) == A / B, n_div + ":wrong", "div wrong");
      }
      i128 const d = A > B ? A - B : B - A;
      // exact |a-b| must be representable in T, and so must the intermediate a-b in
      // the promoted type (the documentation defines the result as abs(a-b))
      if (fits<T>(d) && fits<R>(A - B) && vrt::begin(n_diff.c_str(), a, b))
      {
        vrt::nontrivial(A != B);
        T const r = fcppt::math::diff(a, b);
        VRT_CHECK(static_cast<i128>(r) == d, n_diff + ":wrong", "got %lld want %lld", (long long)r, (long long)as64(d));
      }
    }
  }
}

template <class T> void clamp_all()
{
  static std::string const n = std::string("clamp<") + tname<T>::v + ">";
  std::vector<T> dom;
  if constexpr (sizeof(T) == 1)
  {
    if (vrt::thorough())
      dom = domain<T>();
    else // quick: every 3rd value plus the lattice
    {
      std::set<T> s;
      for (T v : lattice<T>())
        s.insert(v);
      for (i128 v = lo<T>(); v <= hi<T>(); v += 3)
        s.insert(static_cast<T>(v));
      dom.assign(s.begin(), s.end());
    }
  }
  else
  {
    dom = lattice<T>();
    if (!vrt::thorough() && dom.size() > 40)
    {
      std::vector<T> d2;
      for (std::size_t i = 0; i < dom.size(); i += (dom.size() + 39) / 40)
        d2.push_back(dom[i]);
      d2.push_back(dom.back());
      dom = d2;
    }
  }
  for (T v : dom)
  {
    if (vrt::out_of_time())
      return;
    for (T mn : dom)
      for (T mx : dom)
      {
        if (!vrt::begin(n.c_str(), v, mn, mx))
          continue;
        vrt::nontrivial(mn <= mx && (v < mn || v > mx));
        auto const r = fcppt::math::clamp(v, mn, mx);
        if (mn > mx)
          VRT_CHECK(!r.has_value(), n + ":empty_interval", "empty interval gave a value");
        else
        {
          T const want = v < mn ? mn : (v > mx ? mx : v);
          VRT_CHECK(r.has_value() && r.get_unsafe() == want, n + ":wrong", "clamp wrong");
        }
      }
  }
}

// ceil_div / ceil_div_signed reject narrow types: all pairs of a dense square of the 32-bit
// instantiation plus the lattice of 32/64 bit
template <class T> void ceil_div_unsigned(std::vector<T> const &dom, char const *tag)
{
  static std::string const n = std::string("ceil_div<") + tname<T>::v + ">";
  (void)tag;
  for (T a : dom)
  {
    if (vrt::out_of_time())
      return;
    for (T b : dom)
    {
      if (!vrt::begin(n.c_str(), a, b))
        continue;
      i128 const A = a, B = b;
      vrt::nontrivial(B != 0 && A % B != 0);
      vrt::maybe_sample();
      auto const r = fcppt::math::ceil_div(a, b);
      if (B == 0)
        VRT_CHECK(!r.has_value(), n + ":zero", "zero divisor gave a value");
      else
      {
        i128 const want = (A + B - 1) / B;
        VRT_CHECK(r.has_value() && static_cast<i128>(r.get_unsafe()) == want, n + ":wrong", "got %llu want %llu",
                  (unsigned long long)(r.has_value() ? r.get_unsafe() : 0), (unsigned long long)want);
      }
    }
  }
}

static i128 ceil_div_exact(i128 a, i128 b)
{
  i128 q = a / b; // truncates toward zero
  if (a % b != 0 && ((a < 0) == (b < 0)))
    ++q;
  return q;
}

template <class T> void ceil_div_signed_all(std::vector<T> const &dom)
{
  static std::string const n = std::string("ceil_div_signed<") + tname<T>::v + ">";
  for (T a : dom)
  {
    if (vrt::out_of_time())
      return;
    for (T b : dom)
    {
      i128 const A = a, B = b;
      if (B != 0 && !fits<T>(ceil_div_exact(A, B)))
        continue; // min / -1
      if (!vrt::begin(n.c_str(), a, b))
        continue;
      vrt::nontrivial(B != 0 && A % B != 0);
      vrt::maybe_sample();
      auto const r = fcppt::math::ceil_div_signed(a, b);
      if (B == 0)
        VRT_CHECK(!r.has_value(), n + ":zero", "zero divisor gave a value");
      else
      {
        i128 const want = ceil_div_exact(A, B);
        char const *cls = B < 0 ? ":wrong:negative_divisor" : ":wrong";
        VRT_CHECK(r.has_value() && static_cast<i128>(r.get_unsafe()) == want, n + cls, "got %lld want %lld",
                  (long long)(r.has_value() ? r.get_unsafe() : 0), (long long)as64(want));
      }
    }
  }
}

// interval_distance on [a,b], a<=b, only where the documentation is unambiguous
template <class T> void interval_distance_all()
{
  static std::string const n = std::string("interval_distance<") + tname<T>::v + ">";
  int const lo_ = std::is_signed_v<T> ? -4 : 0, hi_ = std::is_signed_v<T> ? 4 : 8;
  // non-degenerate intervals only (a<b, c<d)
  for (int a = lo_; a <= hi_; ++a)
    for (int b = a + 1; b <= hi_; ++b)
      for (int c = lo_; c <= hi_; ++c)
        for (int d = c + 1; d <= hi_; ++d)
        {
          int want;
          bool defined = true;
          if (b <= c)
            want = c - b; // disjoint or touching from outside
          else if (d <= a)
            want = a - d;
          else if (a < c && d < b)
            want = -std::min(c - a, b - d); // [c,d] strictly inside [a,b]
          else if (c < a && b < d)
            want = -std::min(a - c, d - b);
          else if (a < c && b < d)
            want = -(b - c); // strict partial overlap
          else if (c < a && d < b)
            want = -(d - a);
          else
          {
            defined = false; // shared end point with containment: documentation is ambiguous
            want = 0;
          }
          if (std::is_unsigned_v<T> && (want < 0 || !defined))
            continue;
          if (!vrt::begin(n.c_str(), a, b, c, d))
            continue;
          if (!defined)
          {
            // the value is not judged (documentation and code disagree for a shared end point), but the call has to
            // return: a hang or a crash here is attributed to this case by the coordinator
            vrt::nontrivial(true);
            T const r = fcppt::math::interval_distance(fcppt::tuple::make(static_cast<T>(a), static_cast<T>(b)),
                                                       fcppt::tuple::make(static_cast<T>(c), static_cast<T>(d)));
            if (r != 0)
              vrt::count("info:" + n + ":shared_end_point_nonzero", 1);
            continue;
          }
          vrt::nontrivial(want < 0);
          T const r = fcppt::math::interval_distance(fcppt::tuple::make(static_cast<T>(a), static_cast<T>(b)),
                                                     fcppt::tuple::make(static_cast<T>(c), static_cast<T>(d)));
          VRT_CHECK(static_cast<int>(r) == want, n + ":wrong", "got %d want %d", static_cast<int>(r), want);
        }
}

// ---------------------------------------------------------------- sign and size casts, constant masks
// cast::to_signed / to_unsigned / size are value-preserving whenever the value is representable in the result
// (their documentation calls them unsafe otherwise: those inputs are skipped, not asserted)
template <class U> void sign_casts()
{
  using S = std::make_signed_t<U>;
  static std::string const n_ts = std::string("cast::to_signed<") + tname<U>::v + ">";
  static std::string const n_tu = std::string("cast::to_unsigned<") + tname<S>::v + ">";
  for (U x : domain<U>())
    if (fits<S>(static_cast<i128>(x)) && vrt::begin(n_ts.c_str(), x))
    {
      vrt::nontrivial(static_cast<i128>(x) == hi<S>() || x == 0);
      S const r = fcppt::cast::to_signed(x);
      static_assert(std::is_same_v<decltype(fcppt::cast::to_signed(x)), S>);
      VRT_CHECK(static_cast<i128>(r) == static_cast<i128>(x), n_ts + ":wrong", "got %lld", (long long)r);
    }
  for (S x : domain<S>())
    if (x >= 0 && vrt::begin(n_tu.c_str(), x))
    {
      vrt::nontrivial(static_cast<i128>(x) == hi<S>() || x == 0);
      U const r = fcppt::cast::to_unsigned(x);
      static_assert(std::is_same_v<decltype(fcppt::cast::to_unsigned(x)), U>);
      VRT_CHECK(static_cast<i128>(r) == static_cast<i128>(x), n_tu + ":wrong", "got %llu", (unsigned long long)r);
    }
}
template <class D, class S> void size_cast_pair()
{
  static std::string const n = std::string("cast::size<") + tname<D>::v + ">(" + tname<S>::v + ")";
  for (S x : domain<S>())
    if (fits<D>(static_cast<i128>(x)) && vrt::begin(n.c_str(), as64(static_cast<i128>(x) > hi<std::int64_t>() ? -1 : static_cast<i128>(x))))
    {
      vrt::nontrivial(static_cast<i128>(x) == hi<D>() || static_cast<i128>(x) == lo<D>());
      D const r = fcppt::cast::size<D>(x);
      VRT_CHECK(static_cast<i128>(r) == static_cast<i128>(x), n + ":wrong", "value changed");
    }
}
template <class D> void size_cast_dest()
{
  if constexpr (std::is_signed_v<D>)
  {
    size_cast_pair<D, i8>(); size_cast_pair<D, i16>(); size_cast_pair<D, i32>(); size_cast_pair<D, i64>();
  }
  else
  {
    size_cast_pair<D, u8>(); size_cast_pair<D, u16>(); size_cast_pair<D, u32>(); size_cast_pair<D, u64>();
  }
}
// shifted_mask_c<T, B> has exactly bit B; mask_c<T, M> has exactly the bits of M (all B, M = 1<<B and ~(1<<B))
template <class T, unsigned B> void const_mask_one()
{
  static std::string const n = std::string("mask_c<") + tname<T>::v + ">";
  if (!vrt::begin(n.c_str(), B))
    return;
  vrt::nontrivial(B == 0 || B + 1 == sizeof(T) * 8);
  constexpr T one = static_cast<T>(static_cast<T>(1) << B);
  constexpr T inv = static_cast<T>(~one);
  fcppt::bit::mask<T> const sm = fcppt::bit::shifted_mask_c<T, fcppt::bit::shift_count{B}>();
  fcppt::bit::mask<T> const m1 = fcppt::bit::mask_c<T, one>();
  fcppt::bit::mask<T> const m2 = fcppt::bit::mask_c<T, inv>();
  VRT_CHECK(sm.get() == one, n + ":shifted_mask_c", "bit %u: 0x%llx", B, (unsigned long long)sm.get());
  VRT_CHECK(m1.get() == one && m2.get() == inv, n + ":mask_c", "bit %u: 0x%llx 0x%llx", B, (unsigned long long)m1.get(), (unsigned long long)m2.get());
  for (unsigned b = 0; b < sizeof(T) * 8; ++b)
  {
    T const v = static_cast<T>(static_cast<T>(1) << b);
    VRT_CHECK(fcppt::bit::test(v, sm) == (b == B), n + ":bit_test_const", "test(1<<%u, shifted_mask_c %u)", b, B);
    VRT_CHECK(fcppt::bit::test(v, m2) == (b != B), n + ":bit_test_const_inv", "test(1<<%u, mask_c ~bit %u)", b, B);
  }
}
template <class T, unsigned... B> void const_masks(std::integer_sequence<unsigned, B...>) { (const_mask_one<T, B>(), ...); }
template <class T> void const_masks_all() { const_masks<T>(std::make_integer_sequence<unsigned, sizeof(T) * 8>()); }

template <class T> std::vector<T> dense(int from, int to)
{
  std::vector<T> r;
  for (int i = from; i <= to; ++i)
    r.push_back(static_cast<T>(i));
  return r;
}

int main(int argc, char **argv)
{
  vrt::shard("truncation_check->u8", [] { tc_dest<u8>(); });
  vrt::shard("truncation_check->i8", [] { tc_dest<i8>(); });
  vrt::shard("truncation_check->u16", [] { tc_dest<u16>(); });
  vrt::shard("truncation_check->i16", [] { tc_dest<i16>(); });
  vrt::shard("truncation_check->u32", [] { tc_dest<u32>(); });
  vrt::shard("truncation_check->i32", [] { tc_dest<i32>(); });
  vrt::shard("truncation_check->u64", [] { tc_dest<u64>(); });
  vrt::shard("truncation_check->i64", [] { tc_dest<i64>(); });
  vrt::shard("from_int", [] {
    from_int_enum<e8_3>("e8_3", 3);
    from_int_enum<e8_1>("e8_1", 1);
    from_int_enum<e8s_5>("e8s_5", 5);
    from_int_enum<e16_9>("e16_9", 9);
    from_int_enum<e32_4>("e32_4", 4);
    from_int_enum<eint_2>("eint_2", 2);
    from_int_enum<e8_200>("e8_200", 200);
    from_int_enum<e64_3>("e64_3", 3);
    from_int_enum<e16_255>("e16_255", 255);
    from_int_enum<e16_256>("e16_256", 256);
    from_int_enum<e16_257>("e16_257", 257);
    from_int_enum<e16_300>("e16_300", 300);
    from_int_enum<e16_512>("e16_512", 512);
    from_int_enum<e32_65535>("e32_65535", 65535);
    from_int_enum<e32_65536>("e32_65536", 65536);
    from_int_enum<e32_65537>("e32_65537", 65537);
    from_int_enum<e32_70000>("e32_70000", 70000);
    from_int_enum<e64_2p32>("e64_2p32", i128(1) << 32);
    from_int_enum<e64_2p32p1>("e64_2p32p1", (i128(1) << 32) + 1);
  });
  vrt::shard("float_mod_double", [] { float_mod<double>("double"); });
  vrt::shard("float_mod_float", [] { float_mod<float>("float"); });
  vrt::shard("float_mod_long_double", [] { float_mod<long double>("long double"); });
  vrt::shard("unary", [] {
    unary_unsigned<u8>();
    unary_unsigned<u16>();
    unary_unsigned<u32>();
    unary_unsigned<u64>();
    power_of_2_all<u8>();
    power_of_2_all<u16>();
    power_of_2_all<u32>();
    power_of_2_all<u64>();
    power_of_2_all<i8>();
    power_of_2_all<i16>();
    power_of_2_all<i32>();
    power_of_2_all<i64>();
  });
  vrt::shard("casts_and_const_masks", [] {
    sign_casts<u8>(); sign_casts<u16>(); sign_casts<u32>(); sign_casts<u64>();
    size_cast_dest<u8>(); size_cast_dest<i8>(); size_cast_dest<u16>(); size_cast_dest<i16>();
    size_cast_dest<u32>(); size_cast_dest<i32>(); size_cast_dest<u64>(); size_cast_dest<i64>();
    const_masks_all<u8>(); const_masks_all<u16>(); const_masks_all<u32>(); const_masks_all<u64>();
  });
  vrt::shard("binary_u8", [] { binary_unsigned<u8>(); });
  vrt::shard("binary_i8", [] { binary_signed<i8>(); });
  for (unsigned p = 0; p < 16; ++p)
  {
    vrt::shard("binary_u16/" + std::to_string(p), [p] { binary_unsigned<u16>(p, 16); });
    vrt::shard("binary_i16/" + std::to_string(p), [p] { binary_signed<i16>(p, 16); });
  }
  vrt::shard("binary_32_64", [] {
    binary_unsigned<u32>();
    binary_unsigned<u64>();
    binary_signed<i32>();
    binary_signed<i64>();
  });
  vrt::shard("div_mixed_types", [] {
    div_mixed_left<u8>();
    div_mixed_left<i8>();
    div_mixed_left<u16>();
    div_mixed_left<i16>();
    div_mixed_left<u32>();
    div_mixed_left<i32>();
    div_mixed_left<u64>();
    div_mixed_left<i64>();
  });
  vrt::shard("unary_char_types", [] {
    unary_unsigned<char8_t>();
    unary_unsigned<char16_t>();
    unary_unsigned<char32_t>();
  });
  vrt::shard("clamp_u8", [] { clamp_all<u8>(); });
  vrt::shard("clamp_i8", [] { clamp_all<i8>(); });
  vrt::shard("clamp_16", [] {
    clamp_all<u16>();
    clamp_all<i16>();
  });
  vrt::shard("clamp_32_64", [] {
    clamp_all<u32>();
    clamp_all<i32>();
    clamp_all<u64>();
    clamp_all<i64>();
  });
  vrt::shard("ceil_div_u32_dense", [] { ceil_div_unsigned<u32>(dense<u32>(0, vrt::thorough() ? 2047 : 511), "dense"); });
  vrt::shard("ceil_div_lattice", [] {
    ceil_div_unsigned<u32>(lattice<u32>(), "lattice");
    ceil_div_unsigned<u64>(lattice<u64>(), "lattice");
  });
  vrt::shard("ceil_div_signed_i32_dense", [] {
    ceil_div_signed_all<i32>(vrt::thorough() ? dense<i32>(-1024, 1023) : dense<i32>(-256, 255));
  });
  vrt::shard("ceil_div_signed_lattice", [] {
    ceil_div_signed_all<i32>(lattice<i32>());
    ceil_div_signed_all<i64>(lattice<i64>());
  });
  vrt::shard("interval_distance", [] {
    interval_distance_all<int>();
    interval_distance_all<unsigned>();
    interval_distance_all<long>();
  });
  return vrt::run(argc, argv);
}

// shared bits of the C18 harness translation units
#pragma once
#include <cstdint>

namespace c18
{
template <class T> struct tname;
#define C18_TN(T, S)                            \
  template <> struct tname<T>                   \
  {                                             \
    static constexpr char const *v = S;         \
  };
C18_TN(std::int8_t, "i8")
C18_TN(std::uint8_t, "u8")
C18_TN(short, "i16")
C18_TN(unsigned short, "u16")
C18_TN(int, "i32")
C18_TN(unsigned, "u32")
C18_TN(long, "i64")
C18_TN(unsigned long, "u64")
#undef C18_TN

void register_grid_shards(); // C18_grid.cpp
void register_protocol_shards(); // C18_protocol.cpp
}

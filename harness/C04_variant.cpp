// C04 (part 3) -- fcppt::variant.  See C04.cpp / C04_common.hpp.
#include "C04_common.hpp"

#include <fcppt/optional/object_impl.hpp>
#include <fcppt/optional/reference.hpp>
#include <fcppt/reference_impl.hpp>
#include <fcppt/variant/apply.hpp>
#include <fcppt/variant/compare.hpp>
#include <fcppt/variant/comparison.hpp>
#include <fcppt/variant/get_unsafe.hpp>
#include <fcppt/variant/holds_type.hpp>
#include <fcppt/variant/match.hpp>
#include <fcppt/variant/object_impl.hpp>
#include <fcppt/variant/to_optional.hpp>
#include <fcppt/variant/to_optional_ref.hpp>

#include <functional>

using namespace c04;

namespace
{
struct tagA;
struct tagB;
struct tagC;
using A = val<tagA, 3>;
using B = val<tagB, 2>;
using C = val<tagC, 2>;
using V = fcppt::variant::object<A, B, C>;

// variant<A,B,C>: 0..2 = A, 3..4 = B, 5..6 = C
constexpr int NV = 7;
int tag_of(int c) { return c < 3 ? 0 : c < 5 ? 1 : 2; }
int val_of(int c) { return c < 3 ? c : c < 5 ? c - 3 : c - 5; }
V mk_v(int c) { return c < 3 ? V{A{c}} : c < 5 ? V{B{c - 3}} : V{C{c - 5}}; }
int gcode(A const &a) { return a.ok() ? a.v : -100; }
int gcode(B const &b) { return b.ok() ? 3 + b.v : -100; }
int gcode(C const &c) { return c.ok() ? 5 + c.v : -100; }
// observation through the basic observers type_index / get_unsafe (checked themselves in sh_object)
int code(V const &v)
{
  switch (v.type_index())
  {
  case 0: return gcode(v.get_unsafe<A>());
  case 1: return gcode(v.get_unsafe<B>());
  case 2: return gcode(v.get_unsafe<C>());
  }
  return -1000;
}
std::string sv(int c)
{
  if (c < 0 || c >= NV)
    return "INVALID(" + std::to_string(c) + ")";
  return std::string(1, "ABC"[tag_of(c)]) + std::to_string(val_of(c));
}
D mk_d(int c) { return D{c}; }

// ------------------------------------------------------------------ object, holds_type, to_optional(_ref), comparison
void sh_object()
{
  for (int c = 0; c < NV; ++c)
  {
    if (!vrt::begin("variant::object<c>", c))
      continue;
    auto desc = [&] { return "variant::object construct/copy/move/observers of " + sv(c); };
    vrt::nontrivial(true);
    SAMPLE();
    V v = mk_v(c);
    CK(static_cast<int>(v.type_index()) == tag_of(c), "variant::object:type_index", "type_index %d want %d", int(v.type_index()), tag_of(c));
    CK(!v.is_invalid(), "variant::object:is_invalid", "valid variant reports invalid");
    CK(fcppt::variant::holds_type<A>(v) == (tag_of(c) == 0) && fcppt::variant::holds_type<B>(v) == (tag_of(c) == 1) &&
           fcppt::variant::holds_type<C>(v) == (tag_of(c) == 2),
       "variant::holds_type", "holds_type wrong for %s", sv(c).c_str());
    CK(code(v) == c, "variant::object:value", "holds %s", sv(code(v)).c_str());
    int via_free = -1;
    if (tag_of(c) == 0)
      via_free = gcode(fcppt::variant::get_unsafe<A>(v));
    else if (tag_of(c) == 1)
      via_free = gcode(fcppt::variant::get_unsafe<B>(std::as_const(v)));
    else
      via_free = gcode(fcppt::variant::get_unsafe<C>(v));
    CK(via_free == c, "variant::get_unsafe", "free get_unsafe gave %s", sv(via_free).c_str());
    // construct from lvalue / rvalue element
    if (tag_of(c) == 0)
    {
      A const l{val_of(c)};
      V const fl{l};
      A r{val_of(c)};
      V const fr{std::move(r)};
      CK(code(fl) == c && code(fr) == c && l.v == val_of(c), "variant::object:ctor", "from const& %s, from && %s", sv(code(fl)).c_str(), sv(code(fr)).c_str());
      fcppt::variant::get_unsafe<A>(v) = A{(val_of(c) + 1) % 3};
      CK(code(v) == (c + 1) % 3, "variant::object:get_unsafe_mut", "not a reference");
    }
    V const cp{mk_v(c)};
    V const cp2{cp};
    CK(code(cp2) == c && code(cp) == c, "variant::object:copy", "copy wrong");
    for (int d = 0; d < NV; ++d)
    {
      V const src = mk_v(c);
      V x = mk_v(d);
      x = src;
      CK(code(x) == c && code(src) == c, "variant::object:copy_assign", "%s <- %s gave %s", sv(d).c_str(), sv(c).c_str(), sv(code(x)).c_str());
      V y = mk_v(d);
      V z = mk_v(c);
      y = std::move(z);
      CK(code(y) == c, "variant::object:move_assign", "%s <- %s gave %s", sv(d).c_str(), sv(c).c_str(), sv(code(y)).c_str());
      // comparison: == same alternative and same value; < lexicographic on (type_index, value)
      V const p = mk_v(c), q = mk_v(d);
      bool const lt = tag_of(c) != tag_of(d) ? tag_of(c) < tag_of(d) : val_of(c) < val_of(d);
      CK((p == q) == (c == d), "variant::comparison:eq", "%s == %s gave %d", sv(c).c_str(), sv(d).c_str(), int(p == q));
      CK((p != q) == (c != d), "variant::comparison:ne", "%s != %s gave %d", sv(c).c_str(), sv(d).c_str(), int(p != q));
      CK((p < q) == lt, "variant::comparison:lt", "%s < %s gave %d", sv(c).c_str(), sv(d).c_str(), int(p < q));
    }
  }
  for (int cat = 0; cat < 3; ++cat)
    for (int c = 0; c < NV; ++c)
    {
      if (!vrt::begin("variant::to_optional<cat,c>", cat, c))
        continue;
      auto desc = [&] { return std::string("variant::to_optional<A|B|C>, to_optional_ref (") + sv(c) + " as " + cat_name(cat) + ")"; };
      vrt::nontrivial(true);
      SAMPLE();
      {
        V v = mk_v(c);
        auto const r = call_cat(cat, v, [&](auto &&x) { return fcppt::variant::to_optional<A>(std::forward<decltype(x)>(x)); });
        CK(r.has_value() == (tag_of(c) == 0) && (!r.has_value() || gcode(r.get_unsafe()) == c), "variant::to_optional<A>:result", "wrong for %s", sv(c).c_str());
        if (cat < 2)
          CK(code(v) == c, "variant::to_optional<A>:source_modified", "lvalue source is now %s", sv(code(v)).c_str());
      }
      {
        V v = mk_v(c);
        auto const r = call_cat(cat, v, [&](auto &&x) { return fcppt::variant::to_optional<B>(std::forward<decltype(x)>(x)); });
        CK(r.has_value() == (tag_of(c) == 1) && (!r.has_value() || gcode(r.get_unsafe()) == c), "variant::to_optional<B>:result", "wrong for %s", sv(c).c_str());
        if (cat < 2)
          CK(code(v) == c, "variant::to_optional<B>:source_modified", "lvalue source is now %s", sv(code(v)).c_str());
      }
      {
        V v = mk_v(c);
        auto const r = call_cat(cat, v, [&](auto &&x) { return fcppt::variant::to_optional<C>(std::forward<decltype(x)>(x)); });
        CK(r.has_value() == (tag_of(c) == 2) && (!r.has_value() || gcode(r.get_unsafe()) == c), "variant::to_optional<C>:result", "wrong for %s", sv(c).c_str());
        if (cat < 2)
          CK(code(v) == c, "variant::to_optional<C>:source_modified", "lvalue source is now %s", sv(code(v)).c_str());
      }
      if (cat == 1)
      {
        V v = mk_v(c);
        fcppt::optional::reference<A> const ra = fcppt::variant::to_optional_ref<A>(v);
        fcppt::optional::reference<B const> const rb = fcppt::variant::to_optional_ref<B const>(std::as_const(v));
        fcppt::optional::reference<C> const rc = fcppt::variant::to_optional_ref<C>(v);
        CK(ra.has_value() == (tag_of(c) == 0) && rb.has_value() == (tag_of(c) == 1) && rc.has_value() == (tag_of(c) == 2), "variant::to_optional_ref:has_value",
           "wrong for %s", sv(c).c_str());
        if (ra.has_value())
          CK(&ra.get_unsafe().get() == &v.get_unsafe<A>(), "variant::to_optional_ref:address", "A: refers to another object");
        if (rb.has_value())
          CK(&rb.get_unsafe().get() == &std::as_const(v).get_unsafe<B>(), "variant::to_optional_ref:address", "B: refers to another object");
        if (rc.has_value())
          CK(&rc.get_unsafe().get() == &v.get_unsafe<C>(), "variant::to_optional_ref:address", "C: refers to another object");
        CK(code(v) == c, "variant::to_optional_ref:source_modified", "source is now %s", sv(code(v)).c_str());
      }
    }
}

// ------------------------------------------------------------------ match over all (A->D, B->D, C->D) table triples
void sh_match(int part, int nparts)
{
  for (int fa = 0; fa < 27; ++fa)
  {
    if (fa % nparts != part)
      continue;
    for (int fb = 0; fb < 9; ++fb)
      for (int fc = 0; fc < 9; ++fc)
      {
        tab const ta = decode(fa, 3, 3), tb = decode(fb, 3, 2), tc = decode(fc, 3, 2);
        for (int cat = 0; cat < 3; ++cat)
          for (int c = 0; c < NV; ++c)
          {
            if (!vrt::begin("variant::match<cat,c,fa,fb,fc>", cat, c, fa, fb, fc))
              continue;
            auto desc = [&]
            {
              return std::string("variant::match(") + sv(c) + " as " + cat_name(cat) + ", A->" + show_tab(ta, show_int) + ", B->" + show_tab(tb, show_int) + ", C->" +
                     show_tab(tc, show_int) + ")";
            };
            vrt::nontrivial(true);
            SAMPLE();
            probe pa, pb, pc;
            auto const ga = fn1<A, D>(ta, pa, mk_d);
            auto const gb = fn1<B, D>(tb, pb, mk_d);
            auto const gc = fn1<C, D>(tc, pc, mk_d);
            V v = mk_v(c);
            D const r = call_cat(cat, v, [&](auto &&x) { return fcppt::variant::match(std::forward<decltype(x)>(x), ga, gb, gc); });
            int const t = tag_of(c), x = val_of(c);
            int const want = t == 0 ? ta[x] : t == 1 ? tb[x] : tc[x];
            CK(r.v == want, "variant::match:result", "got %d want %d", r.v, want);
            CK(pa.is(t == 0, x) && pb.is(t == 1, x) && pc.is(t == 2, x), "variant::match:calls", "A-fn %s, B-fn %s, C-fn %s", pa.show().c_str(), pb.show().c_str(),
               pc.show().c_str());
            if (cat < 2)
              CK(code(v) == c, "variant::match:source_modified", "lvalue source is now %s", sv(code(v)).c_str());
          }
      }
  }
}

// ------------------------------------------------------------------ apply
// a visitor over all seven values given as one table 7 -> D
struct visitor1
{
  tab const *t;
  probe *p;
  template <class T> D operator()(T a) const
  {
    int const g = gcode(a);
    p->hit(g, g >= 0);
    return D{(*t)[g]};
  }
};
// injective n-ary visitor: records the arguments in order
struct visitor_n
{
  probe *p;
  template <class... T> int operator()(T... a) const
  {
    int r = 0;
    bool ok = true;
    ((ok = ok && gcode(a) >= 0, r = r * NV + gcode(a)), ...);
    p->hit(ok ? r : -1, ok);
    return ok ? r : -1;
  }
};
// mutating visitor (non-const apply): replaces the held value by (value+1) mod size, same alternative
struct bump
{
  template <class T> void operator()(T &a) const { a = T{(a.v + 1) % T::size}; }
};

void sh_apply_unary(int part, int nparts)
{
  int const ntab = ipow(3, NV); // 2187
  for (int f = 0; f < ntab; ++f)
  {
    if (f % nparts != part)
      continue;
    tab const t = decode(f, 3, NV);
    for (int cat = 0; cat < 3; ++cat)
      for (int c = 0; c < NV; ++c)
      {
        if (!vrt::begin("variant::apply1<cat,c,f>", cat, c, f))
          continue;
        auto desc = [&] { return std::string("variant::apply(visitor table ") + show_tab(t, show_int) + " [A0 A1 A2 B0 B1 C0 C1], " + sv(c) + " as " + cat_name(cat) + ")"; };
        vrt::nontrivial(true);
        SAMPLE();
        probe p;
        visitor1 const vis{&t, &p};
        V v = mk_v(c);
        D const r = call_cat(cat, v, [&](auto &&x) { return fcppt::variant::apply(vis, std::forward<decltype(x)>(x)); });
        CK(r.v == t[c], "variant::apply1:result", "got %d want %d", r.v, t[c]);
        CK(p.is(1, c), "variant::apply1:calls", "%s", p.show().c_str());
        if (cat < 2)
          CK(code(v) == c, "variant::apply1:source_modified", "lvalue source is now %s", sv(code(v)).c_str());
      }
  }
}

void sh_apply_nary()
{
  for (int cats = 0; cats < 9; ++cats)
    for (int a = 0; a < NV; ++a)
      for (int b = 0; b < NV; ++b)
      {
        if (!vrt::begin("variant::apply2<cats,a,b>", cats, a, b))
          continue;
        int const ca = cats % 3, cb = cats / 3;
        auto desc = [&] { return std::string("variant::apply((x,y)->7x+y, ") + sv(a) + " as " + cat_name(ca) + ", " + sv(b) + " as " + cat_name(cb) + ")"; };
        vrt::nontrivial(tag_of(a) != tag_of(b));
        SAMPLE();
        probe p;
        visitor_n const vis{&p};
        V va = mk_v(a), vb = mk_v(b);
        int const r = call_cat(ca, va,
                               [&](auto &&x)
                               {
                                 return call_cat(cb, vb, [&](auto &&y) { return fcppt::variant::apply(vis, std::forward<decltype(x)>(x), std::forward<decltype(y)>(y)); });
                               });
        CK(r == a * NV + b, "variant::apply2:result", "got %d want %d", r, a * NV + b);
        CK(p.is(1, a * NV + b), "variant::apply2:calls", "%s", p.show().c_str());
        CK((ca == 2 || code(va) == a) && (cb == 2 || code(vb) == b), "variant::apply2:source_modified", "lvalue sources now %s, %s", sv(code(va)).c_str(), sv(code(vb)).c_str());
      }
  for (int cats = 0; cats < (vrt::thorough() ? 27 : 3); ++cats)
    for (int a = 0; a < NV; ++a)
      for (int b = 0; b < NV; ++b)
        for (int c = 0; c < NV; ++c)
        {
          if (!vrt::begin("variant::apply3<cats,a,b,c>", cats, a, b, c))
            continue;
          // quick tier: all-const&, all-&, all-&& ; thorough: all 27 combinations
          int const ca = vrt::thorough() ? cats % 3 : cats, cb = vrt::thorough() ? (cats / 3) % 3 : cats, cc = vrt::thorough() ? cats / 9 : cats;
          auto desc = [&]
          {
            return std::string("variant::apply((x,y,z)->49x+7y+z, ") + sv(a) + " as " + cat_name(ca) + ", " + sv(b) + " as " + cat_name(cb) + ", " + sv(c) + " as " +
                   cat_name(cc) + ")";
          };
          vrt::nontrivial(tag_of(a) != tag_of(b) || tag_of(b) != tag_of(c));
          SAMPLE();
          probe p;
          visitor_n const vis{&p};
          V va = mk_v(a), vb = mk_v(b), vc = mk_v(c);
          int const r = call_cat(
              ca, va,
              [&](auto &&x)
              {
                return call_cat(cb, vb,
                                [&](auto &&y)
                                {
                                  return call_cat(cc, vc,
                                                  [&](auto &&z) {
                                                    return fcppt::variant::apply(vis, std::forward<decltype(x)>(x), std::forward<decltype(y)>(y),
                                                                                 std::forward<decltype(z)>(z));
                                                  });
                                });
              });
          int const want = (a * NV + b) * NV + c;
          CK(r == want, "variant::apply3:result", "got %d want %d", r, want);
          CK(p.is(1, want), "variant::apply3:calls", "%s", p.show().c_str());
          CK((ca == 2 || code(va) == a) && (cb == 2 || code(vb) == b) && (cc == 2 || code(vc) == c), "variant::apply3:source_modified", "lvalue sources now %s, %s, %s",
             sv(code(va)).c_str(), sv(code(vb)).c_str(), sv(code(vc)).c_str());
        }
  // non-const apply: the visitor gets references into the variants
  for (int a = 0; a < NV; ++a)
    for (int b = 0; b < NV; ++b)
    {
      if (!vrt::begin("variant::apply_mutating<a,b>", a, b))
        continue;
      auto desc = [&] { return "variant::apply(mutating visitor, " + sv(a) + ", " + sv(b) + ")"; };
      vrt::nontrivial(true);
      auto bumped = [](int c) { return c < 3 ? (c + 1) % 3 : c < 5 ? 3 + (c - 3 + 1) % 2 : 5 + (c - 5 + 1) % 2; };
      V va = mk_v(a), vb = mk_v(b);
      fcppt::variant::apply(bump{}, va);
      CK(code(va) == bumped(a), "variant::apply_mutating:unary", "got %s want %s", sv(code(va)).c_str(), sv(bumped(a)).c_str());
      fcppt::variant::apply(
          [](auto &x, auto &y)
          {
            bump{}(x);
            bump{}(y);
          },
          va, vb);
      CK(code(va) == bumped(bumped(a)) && code(vb) == bumped(b), "variant::apply_mutating:binary", "got %s, %s", sv(code(va)).c_str(), sv(code(vb)).c_str());
    }
}

// ------------------------------------------------------------------ compare
// A comparison functor made of three tables (A x A -> bool, B x B -> bool, C x C -> bool).  Only the table
// of the common alternative can be consulted (the probes of the other two must stay untouched), so for a pair
// holding alternative T all tables for T are enumerated with the other two fixed; pairs holding different
// alternatives must not call the functor at all.
struct cmp3
{
  tab const *ta, *tb, *tc;
  probe *pa, *pb, *pc;
  bool operator()(A const &x, A const &y) const
  {
    bool const ok = x.ok() && y.ok();
    int const i = ok ? x.v * 3 + y.v : -1;
    pa->hit(i, ok);
    return (*ta)[i] != 0;
  }
  bool operator()(B const &x, B const &y) const
  {
    bool const ok = x.ok() && y.ok();
    int const i = ok ? x.v * 2 + y.v : -1;
    pb->hit(i, ok);
    return (*tb)[i] != 0;
  }
  bool operator()(C const &x, C const &y) const
  {
    bool const ok = x.ok() && y.ok();
    int const i = ok ? x.v * 2 + y.v : -1;
    pc->hit(i, ok);
    return (*tc)[i] != 0;
  }
};

void sh_compare()
{
  for (int l = 0; l < NV; ++l)
    for (int r = 0; r < NV; ++r)
    {
      bool const same = tag_of(l) == tag_of(r);
      int const t = tag_of(l);
      int const ntab = !same ? 1 : t == 0 ? 512 : 16;
      for (int f = 0; f < ntab; ++f)
      {
        if (!vrt::begin("variant::compare<l,r,table>", l, r, f))
          continue;
        tab const zero9 = decode(0, 2, 9), zero4 = decode(0, 2, 4);
        tab const tf = decode(f, 2, t == 0 ? 9 : 4);
        tab const &ta = same && t == 0 ? tf : zero9;
        tab const &tb = same && t == 1 ? tf : zero4;
        tab const &tc = same && t == 2 ? tf : zero4;
        auto desc = [&] { return "variant::compare(" + sv(l) + ", " + sv(r) + ", table for the common alternative " + show_tab(tf, show_int) + ")"; };
        vrt::nontrivial(same);
        SAMPLE();
        probe pa, pb, pc;
        cmp3 const cmp{&ta, &tb, &tc, &pa, &pb, &pc};
        V const vl = mk_v(l), vr = mk_v(r);
        bool const res = fcppt::variant::compare(vl, vr, cmp);
        int const idx = val_of(l) * (t == 0 ? 3 : 2) + val_of(r);
        bool const want = same && tf[idx] != 0;
        CK(res == want, "variant::compare:result", "got %d want %d", int(res), int(want));
        CK(pa.is(same && t == 0, idx) && pb.is(same && t == 1, idx) && pc.is(same && t == 2, idx), "variant::compare:calls", "A %s B %s C %s", pa.show().c_str(),
           pb.show().c_str(), pc.show().c_str());
        CK(code(vl) == l && code(vr) == r, "variant::compare:source_modified", "sources now %s, %s", sv(code(vl)).c_str(), sv(code(vr)).c_str());
        if (f == 0)
        {
          bool const eq = fcppt::variant::compare(vl, vr, [](auto const &x, auto const &y) { return x == y; });
          CK(eq == (l == r) && eq == (vl == vr), "variant::compare:equal_to", "compare(equal_to) %d, operator== %d", int(eq), int(vl == vr));
        }
      }
    }
}

} // namespace

void c04_variant_shards()
{
  vrt::shard("variant/object", [] { sh_object(); });
  for (int p = 0; p < 3; ++p)
    vrt::shard("variant/match/" + std::to_string(p), [p] { sh_match(p, 3); });
  for (int p = 0; p < 2; ++p)
    vrt::shard("variant/apply_unary/" + std::to_string(p), [p] { sh_apply_unary(p, 2); });
  vrt::shard("variant/apply_nary", [] { sh_apply_nary(); });
  vrt::shard("variant/compare", [] { sh_compare(); });
}

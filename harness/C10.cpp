// C10 -- fcppt::container::bitfield is observationally a set of enumerators.
// Engine E.  All checks live in C10_common.hpp; this file holds main() and the small enums,
// C10_b/_c/_d.cpp instantiate the larger ones (parallel compilation).
#include "C10_common.hpp"

namespace c10
{
void register_a()
{
  register_enum<e1, 1>("e1", 1, 1);
  register_enum<e3, 3>("e3", 1, 1);
  register_enum<e3u, 3>("e3u", 1, 1);
}
}

int main(int argc, char **argv)
{
  c10::register_a();
  c10::register_b();
  c10::register_c();
  c10::register_d();
  return vrt::run(argc, argv);
}

// C05 -- value conservation: fcppt::record (constructor, set, permute, multiply_disjoint, map, init) and
// fcppt::tuple (object/make, map, push_back, concat, apply, invoke, from_array, init).
#include "C05_common.hpp"
#include "C05_record_collect.hpp"

#include <fcppt/array/object_impl.hpp>
#include <fcppt/optional/object_impl.hpp>
#include <fcppt/record/element.hpp>
#include <fcppt/record/get.hpp>
#include <fcppt/record/init.hpp>
#include <fcppt/record/make_label.hpp>
#include <fcppt/record/map.hpp>
#include <fcppt/record/multiply_disjoint.hpp>
#include <fcppt/record/object_impl.hpp>
#include <fcppt/record/permute.hpp>
#include <fcppt/record/set.hpp>
#include <fcppt/tuple/apply.hpp>
#include <fcppt/tuple/concat.hpp>
#include <fcppt/tuple/from_array.hpp>
#include <fcppt/tuple/init.hpp>
#include <fcppt/tuple/invoke.hpp>
#include <fcppt/tuple/make.hpp>
#include <fcppt/tuple/map.hpp>
#include <fcppt/tuple/object_impl.hpp>
#include <fcppt/tuple/push_back.hpp>

namespace
{
using namespace c05;
#define FWD(e) std::forward<decltype(e)>(e)

FCPPT_RECORD_MAKE_LABEL(la);
FCPPT_RECORD_MAKE_LABEL(lb);
FCPPT_RECORD_MAKE_LABEL(lc);
FCPPT_RECORD_MAKE_LABEL(ld);
using ea = fcppt::record::element<la, tracked>;
using eb = fcppt::record::element<lb, tracked_b>;
using ec = fcppt::record::element<lc, tracked_c>;
using ed = fcppt::record::element<ld, tracked>;
using rec1 = fcppt::record::object<ea>;
using rec3 = fcppt::record::object<ea, eb, ec>;
using rec3p = fcppt::record::object<ec, ea, eb>; // a permutation of rec3
using rec_d = fcppt::record::object<ed>;
using rec_bc = fcppt::record::object<eb, ec>;

rec1 mk1(int base) { return rec1{la{} = tracked(base)}; }
rec3 mk3(int base) { return rec3{la{} = tracked(base), lb{} = tracked_b(base + 1), lc{} = tracked_c(base + 2)}; }

// ---------------------------------------------------------------- record
void record_all()
{
  for_cat([&](auto c) {
    constexpr cat C = decltype(c)::value;
    run_case("record::object(label=value)", descr({{"value", C}}, "one element"), true, [&](ctx &x) {
      tracked v(7);
      x.arg("value", C, v);
      x.arm();
      rec1 r{la{} = pass<C>(v)};
      x.disarm();
      x.result_is(r, ids_of(v));
      x.after("value", v);
    });
    run_case("record::object(label=value)", descr({{"value", C}}, "three elements, given in another order"), true, [&](ctx &x) {
      tracked v(7);
      tracked_b w(8);
      tracked_c u(9);
      x.arg("value", C, v);
      x.arg("value_b", C, w);
      x.arg("value_c", C, u);
      x.arm();
      rec3 r{lc{} = pass<C>(u), la{} = pass<C>(v), lb{} = pass<C>(w)};
      x.disarm();
      x.result_is(r, ids_of(v) + ids_of(w) + ids_of(u));
      x.after("value", v);
      x.after("value_b", w);
      x.after("value_c", u);
    });
    // an initializer object (label = value) kept in a variable; the constructor accepts it only as an rvalue (an lvalue
    // initializer is rejected at compile time: see the compile probes)
    if constexpr (C == cat::rv)
    run_case("record::object(initializer)", descr({{"initializer", C}}, "one element"), true, [&](ctx &x) {
      auto init = (la{} = tracked(7));
      std::vector<int> const want = ids_of(init.value());
      tracked const &inside = init.value();
      x.arg("initializer", C, inside);
      x.arm();
      rec1 r{pass<C>(init)};
      x.disarm();
      x.result_is(r, want);
      x.after("initializer", inside);
    });
    run_case("record::set", descr({{"value", C}}, "three elements"), true, [&](ctx &x) {
      rec3 r = mk3(10);
      tracked_b w(8);
      std::vector<int> const before = ids_of(r);
      x.inout("record", r);
      x.arg("value", C, w);
      x.arm();
      fcppt::record::set<lb>(r, pass<C>(w));
      x.disarm();
      x.result_is(r, std::vector<int>{before[0]} + ids_of(w) + std::vector<int>{before[2]}, "record");
      x.after("value", w);
    });
    run_case("record::object(record)", descr({{"record", C}}, "three elements"), true, [&](ctx &x) {
      rec3 a = mk3(10);
      std::vector<int> const want = ids_of(a);
      x.arg("record", C, a);
      x.arm();
      rec3 r(pass<C>(a));
      x.disarm();
      x.result_is(r, want);
      x.after("record", a);
    });
    run_case("record::permute", descr({{"record", C}}, "one element"), true, [&](ctx &x) {
      rec1 a = mk1(10);
      std::vector<int> const want = ids_of(a);
      x.arg("record", C, a);
      x.arm();
      rec1 r = fcppt::record::permute<rec1>(pass<C>(a));
      x.disarm();
      x.result_is(r, want);
      x.after("record", a);
    });
    run_case("record::permute", descr({{"record", C}}, "three elements"), true, [&](ctx &x) {
      rec3 a = mk3(10);
      std::vector<int> const i = ids_of(a);
      x.arg("record", C, a);
      x.arm();
      rec3p r = fcppt::record::permute<rec3p>(pass<C>(a));
      x.disarm();
      x.result_is(r, std::vector<int>{i[2], i[0], i[1]});
      VRT_CHECK(peek::id(fcppt::record::get<la>(r)) == i[0] && peek::id(fcppt::record::get<lb>(r)) == i[1] &&
                    peek::id(fcppt::record::get<lc>(r)) == i[2],
                x.op() + ":result:labels", "elements ended up under the wrong labels");
      x.after("record", a);
    });
    // record::map does not compile for lvalue records (compile probes lvalue:record::map)
    if constexpr (C == cat::rv)
    run_case("record::map", descr({{"record", C}}, "one element"), true, [&](ctx &x) {
      rec1 a = mk1(10);
      std::vector<int> const want = ids_of(a);
      x.arg("record", C, a);
      x.arm();
      rec1 r = fcppt::record::map(pass<C>(a), [](auto &&e) { return take(FWD(e)); });
      x.disarm();
      x.result_is(r, want);
      x.after("record", a);
    });
    if constexpr (C == cat::rv)
    run_case("record::map", descr({{"record", C}}, "three elements"), true, [&](ctx &x) {
      rec3 a = mk3(10);
      std::vector<int> const want = ids_of(a);
      x.arg("record", C, a);
      x.arm();
      rec3 r = fcppt::record::map(pass<C>(a), [](auto &&e) { return take(FWD(e)); });
      x.disarm();
      x.result_is(r, want);
      x.after("record", a);
    });
    for_cat([&](auto c2) {
      constexpr cat C2 = decltype(c2)::value;
      run_case("record::multiply_disjoint", descr({{"record1", C}, {"record2", C2}}, "1+1 elements"), true, [&](ctx &x) {
        rec1 a = mk1(10);
        rec_d b{ld{} = tracked(20)};
        x.arg("record1", C, a);
        x.arg("record2", C2, b);
        x.arm();
        auto r = fcppt::record::multiply_disjoint(pass<C>(a), pass<C2>(b));
        x.disarm();
        // the order of the elements of a disjoint product is not specified: compare by label
        std::vector<item> got;
        collect(fcppt::record::get<la>(r), got);
        collect(fcppt::record::get<ld>(r), got);
        x.result_items(got, ids_of(a) + ids_of(b));
        x.result_is(r, ids_of(r)); // nothing else in there, nothing moved-from
        VRT_CHECK(ids_of(r).size() == 2, x.op() + ":result:size", "result has %zu elements", ids_of(r).size());
        x.after("record1", a);
        x.after("record2", b);
      });
      run_case("record::multiply_disjoint", descr({{"record1", C}, {"record2", C2}}, "1+2 elements"), true, [&](ctx &x) {
        rec1 a = mk1(10);
        rec_bc b{lb{} = tracked_b(20), lc{} = tracked_c(21)};
        x.arg("record1", C, a);
        x.arg("record2", C2, b);
        x.arm();
        auto r = fcppt::record::multiply_disjoint(pass<C>(a), pass<C2>(b));
        x.disarm();
        std::vector<item> got;
        collect(fcppt::record::get<la>(r), got);
        collect(fcppt::record::get<lb>(r), got);
        collect(fcppt::record::get<lc>(r), got);
        x.result_items(got, ids_of(a) + ids_of(b));
        VRT_CHECK(ids_of(r).size() == 3, x.op() + ":result:size", "result has %zu elements", ids_of(r).size());
        x.after("record1", a);
        x.after("record2", b);
      });
    });
  });
  run_case("record::init", "three elements", true, [&](ctx &x) {
    std::map<std::string, int> made;
    x.arm();
    rec3 r = fcppt::record::init<rec3>([&made]<typename L, typename T>(fcppt::record::element<L, T>) {
      T t(5);
      made[std::is_same_v<L, la> ? "a" : std::is_same_v<L, lb> ? "b" : "c"] = peek::id(t);
      return t;
    });
    x.disarm();
    x.result_is(r, std::vector<int>{made["a"], made["b"], made["c"]});
  });
}

// ---------------------------------------------------------------- tuple
using tup0 = fcppt::tuple::object<>;
using tup1 = fcppt::tuple::object<tracked>;
using tup3 = fcppt::tuple::object<tracked, tracked_b, tracked_c>;

template <class T> T mkt(int base);
template <> tup0 mkt<tup0>(int) { return tup0{}; }
template <> tup1 mkt<tup1>(int base) { return tup1{tracked(base)}; }
template <> tup3 mkt<tup3>(int base) { return tup3{tracked(base), tracked_b(base + 1), tracked_c(base + 2)}; }
template <class T> char const *tname();
template <> char const *tname<tup0>() { return "size=0"; }
template <> char const *tname<tup1>() { return "size=1"; }
template <> char const *tname<tup3>() { return "size=3"; }

template <class T> void tuple_unary()
{
  constexpr std::size_t N = std::tuple_size_v<typename T::impl_type>;
  for_cat([&](auto c) {
    constexpr cat C = decltype(c)::value;
    std::string const d = descr({{"tuple", C}}, tname<T>());
    run_case("tuple::object(tuple)", d, N > 0, [&](ctx &x) {
      T t = mkt<T>(10);
      std::vector<int> const want = ids_of(t);
      x.arg("tuple", C, t);
      x.arm();
      T r(pass<C>(t));
      x.disarm();
      x.result_is(r, want);
      x.after("tuple", t);
    });
    run_case("tuple::map", d, N > 0, [&](ctx &x) {
      T t = mkt<T>(10);
      std::vector<int> const want = ids_of(t);
      x.arg("tuple", C, t);
      x.arm();
      T r = fcppt::tuple::map(pass<C>(t), [](auto &&e) { return take(FWD(e)); });
      x.disarm();
      x.result_is(r, want);
      x.after("tuple", t);
    });
    run_case("tuple::invoke", d, N > 0, [&](ctx &x) {
      T t = mkt<T>(10);
      std::vector<int> const want = ids_of(t);
      x.arg("tuple", C, t);
      x.arm();
      auto r = fcppt::tuple::invoke([](auto &&...e) { return std::make_tuple(take(FWD(e))...); }, pass<C>(t));
      x.disarm();
      x.result_is(r, want);
      x.after("tuple", t);
    });
    // tuple::apply compiles only for exactly two rvalue tuples (its static_assert uses std::is_same_v<sizes...>, and
    // apply_result takes tuple::size of a reference type for lvalues): compile probes tuple::apply:* ; runtime entry: apply/2 rvalue
    for_cat([&](auto c2) {
      constexpr cat C2 = decltype(c2)::value;
      std::string const d2 = descr({{"tuple", C}, {"element", C2}}, tname<T>());
      run_case("tuple::push_back", d2, true, [&](ctx &x) {
        T t = mkt<T>(10);
        tracked_b e(30);
        std::vector<int> const want = ids_of(t) + ids_of(e);
        x.arg("tuple", C, t);
        x.arg("element", C2, e);
        x.arm();
        auto r = fcppt::tuple::push_back(pass<C>(t), pass<C2>(e));
        x.disarm();
        static_assert(std::tuple_size_v<typename decltype(r)::impl_type> == N + 1);
        x.result_is(r, want);
        x.after("tuple", t);
        x.after("element", e);
      });
      std::string const d3 = descr({{"tuple1", C}, {"tuple2", C2}}, tname<T>());
      if constexpr (C == cat::rv && C2 == cat::rv)
      run_case("tuple::apply/2", d3, N > 0, [&](ctx &x) {
        T a = mkt<T>(10), b = mkt<T>(20);
        std::vector<int> want;
        for (std::size_t i = 0; i < N; ++i)
        {
          want.push_back(ids_of(a)[i]);
          want.push_back(ids_of(b)[i]);
        }
        x.arg("tuple1", C, a);
        x.arg("tuple2", C2, b);
        x.arm();
        auto r = fcppt::tuple::apply([](auto &&e1, auto &&e2) { return std::make_pair(take(FWD(e1)), take(FWD(e2))); }, pass<C>(a), pass<C2>(b));
        x.disarm();
        x.result_is(r, want);
        x.after("tuple1", a);
        x.after("tuple2", b);
      });
    });
  });
}

template <class T1, class T2> void tuple_concat()
{
  for_cat([&](auto c1) {
    for_cat([&](auto c2) {
      constexpr cat C1 = decltype(c1)::value;
      constexpr cat C2 = decltype(c2)::value;
      run_case("tuple::concat/2", descr({{"tuple1", C1}, {"tuple2", C2}}, std::string(tname<T1>()) + "," + tname<T2>()),
               std::tuple_size_v<typename T1::impl_type> + std::tuple_size_v<typename T2::impl_type> > 0, [&](ctx &x) {
                 T1 a = mkt<T1>(10);
                 T2 b = mkt<T2>(20);
                 std::vector<int> const want = ids_of(a) + ids_of(b);
                 x.arg("tuple1", C1, a);
                 x.arg("tuple2", C2, b);
                 x.arm();
                 auto r = fcppt::tuple::concat(pass<C1>(a), pass<C2>(b));
                 x.disarm();
                 x.result_is(r, want);
                 x.after("tuple1", a);
                 x.after("tuple2", b);
               });
    });
  });
}

void tuple_misc()
{
  for_cat([&](auto c) {
    constexpr cat C = decltype(c)::value;
    run_case("tuple::object(values)", descr({{"value", C}}, "size=3"), true, [&](ctx &x) {
      tracked v(7);
      tracked_b w(8);
      tracked_c u(9);
      x.arg("value", C, v);
      x.arg("value_b", C, w);
      x.arg("value_c", C, u);
      x.arm();
      tup3 r(pass<C>(v), pass<C>(w), pass<C>(u));
      x.disarm();
      x.result_is(r, ids_of(v) + ids_of(w) + ids_of(u));
      x.after("value", v);
      x.after("value_b", w);
      x.after("value_c", u);
    });
    run_case("tuple::make", descr({{"value", C}}, "size=3"), true, [&](ctx &x) {
      tracked v(7);
      tracked_b w(8);
      tracked_c u(9);
      x.arg("value", C, v);
      x.arg("value_b", C, w);
      x.arg("value_c", C, u);
      x.arm();
      tup3 r = fcppt::tuple::make(pass<C>(v), pass<C>(w), pass<C>(u));
      x.disarm();
      x.result_is(r, ids_of(v) + ids_of(w) + ids_of(u));
      x.after("value", v);
      x.after("value_b", w);
      x.after("value_c", u);
    });
    run_case("tuple::concat/3", descr({{"tuple", C}}, "sizes 1,3,1, all in the same category"), true, [&](ctx &x) {
      tup1 a = mkt<tup1>(10);
      tup3 b = mkt<tup3>(20);
      tup1 d = mkt<tup1>(30);
      std::vector<int> const want = ids_of(a) + ids_of(b) + ids_of(d);
      x.arg("tuple", C, a);
      x.arg("tuple2", C, b);
      x.arg("tuple3", C, d);
      x.arm();
      auto r = fcppt::tuple::concat(pass<C>(a), pass<C>(b), pass<C>(d));
      x.disarm();
      x.result_is(r, want);
      x.after("tuple", a);
      x.after("tuple2", b);
      x.after("tuple3", d);
    });
    run_case("tuple::from_array", descr({{"array", C}}, "size=3"), true, [&](ctx &x) {
      fcppt::array::object<tracked, 3> a{tracked(1), tracked(2), tracked(3)};
      std::vector<int> const want = ids_of(a);
      x.arg("array", C, a);
      x.arm();
      fcppt::tuple::object<tracked, tracked, tracked> r = fcppt::tuple::from_array(pass<C>(a));
      x.disarm();
      x.result_is(r, want);
      x.after("array", a);
    });
  });
  run_case("tuple::init", "size=3", true, [&](ctx &x) {
    std::vector<int> made(3, -1);
    x.arm();
    tup3 r = fcppt::tuple::init<tup3>([&made]<std::size_t I>(std::integral_constant<std::size_t, I>) {
      std::tuple_element_t<I, tup3::impl_type> t(5);
      made[I] = peek::id(t);
      return t;
    });
    x.disarm();
    x.result_is(r, made);
  });
}

}

namespace c05
{
void register_record_tuple_shards()
{
  vrt::shard("record", [] {
    record_all();
    flush_info();
  });
  vrt::shard("tuple", [] {
    tuple_unary<tup0>();
    tuple_unary<tup1>();
    tuple_unary<tup3>();
    tuple_concat<tup0, tup0>();
    tuple_concat<tup0, tup3>();
    tuple_concat<tup1, tup1>();
    tuple_concat<tup1, tup3>();
    tuple_concat<tup3, tup1>();
    tuple_concat<tup3, tup3>();
    tuple_misc();
    flush_info();
  });
}
}

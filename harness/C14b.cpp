// C14b.cpp -- main of the second binary C14b: every instantiation of a matrix product whose
// left operand has more rows than columns (rows(left) > inner dimension), and the
// mixed-scalar matrix*vector shard.  They are kept apart from the binary C14 so that a
// library change which breaks only such an instantiation (each class is also a compile
// probe) leaves the run-time verdict of all other shards intact.
#define C14_WITH_TALL 1
#include "C14_matrix.hpp"
#include "C14_strided_mat.hpp"

namespace c14
{
void register_b_shapes();
void register_b_narrow();

namespace
{
template <sz R, sz C> std::vector<rmat<R, C>> structured(int maxnz)
{
  rmat<R, C> ones;
  ones.d.fill(1);
  return concat_unique<rmat<R, C>>({sparse_over<R, C>(maxnz, {1, -1}), {distinct_matrix<R, C>(1, 0), distinct_matrix<R, C>(2, 1), ones}});
}
std::vector<long> const pm1{-1, 0, 1};

// A*x = A*(Cx1 matrix) for a tall A (the rest of matvec_case runs in the binary C14)
template <sz R, sz C> void tall_column_law(std::vector<rmat<R, C>> const &fam, std::vector<rvec<C>> const &xs)
{
  static std::string const fn = "matrix_vector<" + shape(R, C) + ">";
  for (auto const &a : fam)
  {
    smat<R, C> const sa = mk_s(a);
    for (auto const &x : xs)
    {
      if (!vrt::begin_text(fn.c_str(), fn + " A=" + show(a) + " x=" + show(x)))
        continue;
      vrt::nontrivial(!rmzero(a) && !rvzero(x));
      rmat<C, 1> col;
      col.d = x;
      C14_EQ(rd(sa * mk_s(col)).d, rmulvec(a, x), fn + ":law:column_matrix", "A*(Cx1 matrix)");
      C14_EQ(rdv(sa * mk_sv<svec<C>>(x)), rmulvec(a, x), fn + ":wrong:static_static", "A*x");
    }
  }
}
}

void register_b_rect()
{
  for (unsigned p = 0; p < 2; ++p)
    vrt::shard("tall/product/3x2.2x3/" + std::to_string(p), [p] {
      auto const a = vrt::thorough() ? all_over<3, 2>(pm1) : structured<3, 2>(2);
      auto const b = vrt::thorough() ? all_over<2, 3>(pm1) : structured<2, 3>(2);
      product_pairs_all<3, 2, 3>(make_ops(a), make_ops(b), p, 2);
    });
  vrt::shard("tall/product/column_row", [] {
    product_pairs_all<3, 1, 3>(make_ops(all_over<3, 1>({-1, 0, 1, 2})), make_ops(all_over<1, 3>({-1, 0, 1, 2})), 0, 1);
    product_pairs_all<4, 1, 4>(make_ops(all_over<4, 1>(pm1)), make_ops(all_over<1, 4>(pm1)), 0, 1);
  });
  vrt::shard("tall/product/4x3.3x4", [] { product_pairs_all<4, 3, 4>(make_ops(structured<4, 3>(2)), make_ops(structured<3, 4>(2)), 0, 1); });
  vrt::shard("tall/matvec_laws_assoc", [] {
    int const nz = vrt::thorough() ? 2 : 1;
    matvec_laws<3, 2, 3>(make_ops(structured<3, 2>(nz)), make_ops(structured<2, 3>(nz)), all_vectors<3>(-1, 1), 0, 1);
    rect_assoc<2, 3, 2, 3>(make_ops(structured<2, 3>(nz)), make_ops(structured<3, 2>(nz)), make_ops(structured<2, 3>(nz)));
    rect_assoc<3, 1, 1, 3>(make_ops(all_over<3, 1>(pm1)), make_ops(all_over<1, 1>(range(-2, 2))), make_ops(all_over<1, 3>(pm1)));
    rect_assoc<2, 4, 3, 2>(make_ops(structured<2, 4>(1)), make_ops(structured<4, 3>(1)), make_ops(structured<3, 2>(1)));
  });
  vrt::shard("write_access/int/cells", [] {
    // int writes through at_r_c / at_r / get_unsafe / mRC hit exactly the addressed cell (all 16 shapes)
    static_for_rc<4, 4>([](auto ri, auto ci) { write_access_case<decltype(ri)::value + 1, decltype(ci)::value + 1>(); });
  });
  vrt::shard("tall/column_law", [] {
    tall_column_law<3, 2>(all_over<3, 2>(pm1), all_vectors<2>(-2, 2));
    tall_column_law<4, 1>(all_over<4, 1>(pm1), all_vectors<1>(-3, 3));
    tall_column_law<4, 3>(structured<4, 3>(2), all_vectors<3>(-1, 1));
    tall_column_law<4, 2>(structured<4, 2>(2), all_vectors<2>(-2, 2));
  });
  vrt::shard("tall/noncontiguous/matrix2x3", [] {
    // the part of the 2x3 non-contiguous case that needs a 3x2 * 2x3 product (transpose(Y)*X)
    auto fam = all_over<2, 3>({0, 1});
    fam.push_back(distinct_matrix<2, 3>(1, 1));
    fam.push_back(distinct_matrix<2, 3>(-3, 0));
    noncontig::matrix_pairs<2, 3>(fam, 0, 1);
  });
}
}

int main(int argc, char **argv)
{
  c14::register_b_rect();
  c14::register_b_shapes();
  c14::register_b_narrow();
  return vrt::run(argc, argv);
}

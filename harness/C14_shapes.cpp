// C14_shapes.cpp -- products RxK * KxC for the shape triples with R <= K <= 3 (see C14_shapes.hpp; K = 4 is in C14_m4.cpp),
// identity laws for all 16 shapes (right identity only for R <= C here).
#include "C14_shapes.hpp"

namespace c14
{
using namespace shapes;

namespace
{
template <sz R, sz K> void all_c()
{
  product_shape<R, K, 1>();
  product_shape<R, K, 2>();
  product_shape<R, K, 3>();
  product_shape<R, K, 4>();
}
template <sz R> void identity_row()
{
  identity_shape<R, 1>();
  identity_shape<R, 2>();
  identity_shape<R, 3>();
  identity_shape<R, 4>();
}
}

void register_shapes()
{
  vrt::shard("shapes/product/inner1_2", [] {
    all_c<1, 1>();
    all_c<1, 2>();
    all_c<2, 2>();
  });
  vrt::shard("shapes/product/inner3", [] {
    all_c<1, 3>();
    all_c<2, 3>();
    all_c<3, 3>();
  });
  vrt::shard("shapes/identity", [] {
    identity_row<1>();
    identity_row<2>();
    identity_row<3>();
    identity_row<4>();
  });
}
}

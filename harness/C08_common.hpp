// C08 -- shared helpers of the grid harness: tuple enumeration and the independent
// reference (explicit nested loops in storage order, plain integers, no fcppt code).
#ifndef VERIF_C08_COMMON_HPP
#define VERIF_C08_COMMON_HPP
#include <vrt.hpp>

#include <fcppt/container/grid/dim.hpp>
#include <fcppt/container/grid/pos.hpp>

#include <array>
#include <cstddef>
#include <string>
#include <vector>

namespace c08
{
namespace g = fcppt::container::grid;
using ll = long long;
// a position / size / min / sup as plain integers; slot 0 = x (fastest in storage), unused slots are fillers.
// The value -1 in a *position* stands for "maximum value of the size type" (the position one below 0).
using A3 = std::array<ll, 3>;

template <class T, std::size_t N> g::pos<T, N> mkpos(A3 const &a)
{
  if constexpr (N == 1)
    return g::pos<T, 1>(static_cast<T>(a[0]));
  else if constexpr (N == 2)
    return g::pos<T, 2>(static_cast<T>(a[0]), static_cast<T>(a[1]));
  else
    return g::pos<T, 3>(static_cast<T>(a[0]), static_cast<T>(a[1]), static_cast<T>(a[2]));
}

template <class T, std::size_t N> g::dim<T, N> mkdim(A3 const &a)
{
  if constexpr (N == 1)
    return g::dim<T, 1>(static_cast<T>(a[0]));
  else if constexpr (N == 2)
    return g::dim<T, 2>(static_cast<T>(a[0]), static_cast<T>(a[1]));
  else
    return g::dim<T, 3>(static_cast<T>(a[0]), static_cast<T>(a[1]), static_cast<T>(a[2]));
}

// components of an fcppt vector/dim as plain integers (unused slots = filler)
template <std::size_t N, class V> A3 comps(V const &v, ll filler)
{
  A3 r{filler, filler, filler};
  for (std::size_t i = 0; i < N; ++i)
    r[i] = static_cast<ll>(v.get_unsafe(i));
  return r;
}

inline std::string show(std::size_t N, A3 const &a)
{
  std::string r = "(";
  for (std::size_t i = 0; i < N; ++i)
  {
    if (i)
      r += ',';
    r += std::to_string(a[i]);
  }
  return r + ")";
}

inline ll product(std::size_t N, A3 const &a)
{
  ll r = 1;
  for (std::size_t i = 0; i < N; ++i)
    r *= a[i];
  return r;
}

// every tuple with components lo..hi in the first N slots (slot 0 fastest); unused slots = filler
inline std::vector<A3> tuples(std::size_t N, ll lo, ll hi, ll filler)
{
  std::vector<A3> r;
  A3 lo3{filler, filler, filler}, hi3{filler, filler, filler};
  for (std::size_t i = 0; i < N; ++i)
  {
    lo3[i] = lo;
    hi3[i] = hi;
  }
  for (ll z = lo3[2]; z <= hi3[2]; ++z)
    for (ll y = lo3[1]; y <= hi3[1]; ++y)
      for (ll x = lo3[0]; x <= hi3[0]; ++x)
        r.push_back(A3{x, y, z});
  return r;
}

// every tuple with component i in 0..hi[i] for the first N slots (slot 0 fastest); unused slots = 0
inline std::vector<A3> tuples_upto(std::size_t N, A3 const &hi)
{
  A3 h{0, 0, 0};
  for (std::size_t i = 0; i < N; ++i)
    h[i] = hi[i];
  std::vector<A3> r;
  for (ll z = 0; z <= h[2]; ++z)
    for (ll y = 0; y <= h[1]; ++y)
      for (ll x = 0; x <= h[0]; ++x)
        r.push_back(A3{x, y, z});
  return r;
}

// REFERENCE: the positions p with mn <= p < sp component-wise, in storage order (x fastest, then y, then z);
// none if any component of mn is not below sp.  Unused slots of the result are 0.
inline std::vector<A3> ref_range(std::size_t N, A3 const &mn, A3 const &sp)
{
  std::vector<A3> r;
  A3 lo{0, 0, 0}, hi{1, 1, 1};
  for (std::size_t i = 0; i < N; ++i)
  {
    if (!(mn[i] < sp[i]))
      return r;
    lo[i] = mn[i];
    hi[i] = sp[i];
  }
  for (ll z = lo[2]; z < hi[2]; ++z)
    for (ll y = lo[1]; y < hi[1]; ++y)
      for (ll x = lo[0]; x < hi[0]; ++x)
        r.push_back(A3{x, y, z});
  return r;
}

// REFERENCE: is p a position of a grid of size sz (p may contain -1 = "max of the size type")
inline bool ref_in_range(std::size_t N, A3 const &sz, A3 const &p)
{
  for (std::size_t i = 0; i < N; ++i)
    if (p[i] < 0 || p[i] >= sz[i])
      return false;
  return true;
}

// REFERENCE: row-major storage index in closed form (second, independent formulation next to the loop ordinal)
inline ll ref_index(std::size_t N, A3 const &sz, A3 const &p)
{
  ll r = p[0];
  if (N >= 2)
    r += sz[0] * p[1];
  if (N >= 3)
    r += sz[0] * sz[1] * p[2];
  return r;
}

// all positions in a margin around a grid of size sz: every component in 0..extent+1 or -1 (= max of the type)
inline std::vector<A3> margin_positions(std::size_t N, A3 const &sz)
{
  std::vector<A3> r;
  std::array<std::vector<ll>, 3> c;
  for (std::size_t i = 0; i < 3; ++i)
  {
    if (i < N)
    {
      for (ll v = 0; v <= sz[i] + 1; ++v)
        c[i].push_back(v);
      c[i].push_back(-1);
    }
    else
      c[i].push_back(0);
  }
  for (ll z : c[2])
    for (ll y : c[1])
      for (ll x : c[0])
        r.push_back(A3{x, y, z});
  return r;
}

// cell value that identifies a position (components < 7), never 0
inline int enc(A3 const &p) { return static_cast<int>(1 + p[0] + 7 * p[1] + 49 * p[2]); }

// tier bounds: quick = the bound stated in the property and DESIGN.md section 2 (extents 0..4, min/sup 0..5);
// thorough goes two further in every direction (extents 0..6, min/sup 0..7; enc() needs components < 7 and
// unsigned char needs contents <= 255, both hold)
inline ll max_extent(std::size_t) { return vrt::quick() ? 4 : 6; }
inline ll max_minsup(std::size_t) { return vrt::quick() ? 5 : 7; }

// non-triviality of a (min, sup) case: at least two positions are visited (a step, for N > 1 usually a carry,
// happens), or the range is empty because of exactly one component although N > 1 (any/all confusion shows here)
inline bool nontrivial_range(std::size_t N, A3 const &mn, A3 const &sp, std::size_t visited)
{
  std::size_t offending = 0;
  for (std::size_t i = 0; i < N; ++i)
    offending += mn[i] < sp[i] ? 0U : 1U;
  return visited >= 2 || (N > 1 && offending == 1);
}

// Observation that is stricter than the property / the documentation (exact number of callback invocations, exact
// representation of an empty dimension, ...): recorded in the evidence as counter "info:<sig>", never a verdict.
inline void info_check(bool cond, std::string const &sig)
{
  if (!cond)
    vrt::count("info:" + sig);
}

void register_pos_shards();  // C08_pos.cpp: free functions on pos/dim/min/sup for three size types
void register_grid_shards(); // C08_grid.cpp: grid::object, at_optional, pos_ref_range
void register_ops_shards();  // C08_ops.cpp: resize, map, apply, fill, clamp helpers
void register_hist_shards();  // C08_hist.cpp: range objects kept across operations on their grid
void register_cat_shards();   // C08_cat.cpp: value categories of grid arguments (apply, map, resize, fill)
void register_scale_shards(); // C08_scale.cpp: boundary lattice of large extents/coordinates; grid value operations
}
#endif

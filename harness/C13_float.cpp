// C13: instantiations for T = float (decimal lattice with ulp neighbours, extreme values), N = 1,2
#include <C13_impl.hpp>
void c13::reg_float() { c13::reg_fp<float>(); }

// C14_common.hpp -- shared by the C14 translation units: plain-array reference
// model (long arithmetic, naive loops, Leibniz determinant), the enumerated
// matrix/vector families, storage helpers (static / pointer view) and reporting.
#pragma once
#include <vrt.hpp>

#include <fcppt/no_init.hpp>
#include <fcppt/math/size_type.hpp>
#include <fcppt/math/static_size.hpp>
#include <fcppt/math/dim/object_impl.hpp>
#include <fcppt/math/dim/static.hpp>
#include <fcppt/math/matrix/object_impl.hpp>
#include <fcppt/math/matrix/static.hpp>
#include <fcppt/math/vector/object_impl.hpp>
#include <fcppt/math/vector/static.hpp>

#include <algorithm>
#include <array>
#include <cstddef>
#include <memory>
#include <set>
#include <string>
#include <utility>
#include <vector>

namespace c14
{
using I = int; // the exact scalar the real templates are instantiated with
using sz = fcppt::math::size_type;

// ------------------------------------------------------------------ reference model
template <sz N> struct rvec
{
  std::array<long, N> d{};
  long &operator[](sz i) { return d[i]; }
  long operator[](sz i) const { return d[i]; }
  auto begin() const { return d.begin(); }
  auto end() const { return d.end(); }
  void fill(long v) { d.fill(v); }
  friend bool operator==(rvec const &a, rvec const &b) { return a.d == b.d; }
  friend bool operator!=(rvec const &a, rvec const &b) { return !(a.d == b.d); }
  friend bool operator<(rvec const &a, rvec const &b) { return a.d < b.d; }
};
// a converter for structure_cast that is not the identity on equal types: x -> 1 - x
struct one_minus_fun
{
  template <typename Dest, typename Source> static constexpr Dest execute(Source const &_source) noexcept
  {
    return static_cast<Dest>(1 - _source);
  }
};

template <sz R, sz C> struct rmat
{
  rvec<R * C> d{}; // row-major
  long &at(sz r, sz c) { return d[r * C + c]; }
  long at(sz r, sz c) const { return d[r * C + c]; }
  friend bool operator==(rmat const &a, rmat const &b) { return a.d == b.d; }
  friend bool operator!=(rmat const &a, rmat const &b) { return !(a.d == b.d); }
  friend bool operator<(rmat const &a, rmat const &b) { return a.d < b.d; }
};

template <sz R, sz C> rmat<R, C> radd(rmat<R, C> const &a, rmat<R, C> const &b)
{
  rmat<R, C> r;
  for (sz i = 0; i < R; ++i)
    for (sz j = 0; j < C; ++j)
      r.at(i, j) = a.at(i, j) + b.at(i, j);
  return r;
}
template <sz R, sz C> rmat<R, C> rsub(rmat<R, C> const &a, rmat<R, C> const &b)
{
  rmat<R, C> r;
  for (sz i = 0; i < R; ++i)
    for (sz j = 0; j < C; ++j)
      r.at(i, j) = a.at(i, j) - b.at(i, j);
  return r;
}
template <sz R, sz C> rmat<R, C> rscal(long k, rmat<R, C> const &a)
{
  rmat<R, C> r;
  for (sz i = 0; i < R; ++i)
    for (sz j = 0; j < C; ++j)
      r.at(i, j) = k * a.at(i, j);
  return r;
}
template <sz R, sz K, sz C> rmat<R, C> rmul(rmat<R, K> const &a, rmat<K, C> const &b)
{
  rmat<R, C> r;
  for (sz i = 0; i < R; ++i)
    for (sz j = 0; j < C; ++j)
    {
      long s = 0;
      for (sz k = 0; k < K; ++k)
        s += a.at(i, k) * b.at(k, j);
      r.at(i, j) = s;
    }
  return r;
}
template <sz R, sz C> rmat<C, R> rtrans(rmat<R, C> const &a)
{
  rmat<C, R> r;
  for (sz i = 0; i < R; ++i)
    for (sz j = 0; j < C; ++j)
      r.at(j, i) = a.at(i, j);
  return r;
}
template <sz N> rmat<N, N> rident()
{
  rmat<N, N> r;
  for (sz i = 0; i < N; ++i)
    r.at(i, i) = 1;
  return r;
}
template <sz R, sz C> rmat<R, C> rzero() { return rmat<R, C>{}; }
// Leibniz formula: sum over all permutations of sign * product (independent of any
// Laplace expansion order); the empty matrix has determinant 1
template <sz N> long rdet(rmat<N, N> const &a)
{
  std::array<sz, N> p{};
  for (sz i = 0; i < N; ++i)
    p[i] = i;
  long sum = 0;
  do
  {
    int inv = 0;
    for (sz i = 0; i < N; ++i)
      for (sz j = i + 1; j < N; ++j)
        if (p[i] > p[j])
          ++inv;
    long prod = (inv % 2 == 0) ? 1 : -1;
    for (sz i = 0; i < N; ++i)
      prod *= a.at(i, p[i]);
    sum += prod;
  } while (std::next_permutation(p.begin(), p.end()));
  return sum;
}
// the matrix without row dr and column dc
template <sz R, sz C> rmat<R - 1, C - 1> rminor(rmat<R, C> const &a, sz dr, sz dc)
{
  rmat<R - 1, C - 1> r;
  sz ri = 0;
  for (sz i = 0; i < R; ++i)
  {
    if (i == dr)
      continue;
    sz ci = 0;
    for (sz j = 0; j < C; ++j)
    {
      if (j == dc)
        continue;
      r.at(ri, ci) = a.at(i, j);
      ++ci;
    }
    ++ri;
  }
  return r;
}
// adjugate = transposed cofactor matrix
template <sz N> rmat<N, N> radj(rmat<N, N> const &a)
{
  rmat<N, N> r;
  for (sz i = 0; i < N; ++i)
    for (sz j = 0; j < N; ++j)
      r.at(i, j) = (((i + j) % 2 == 0) ? 1 : -1) * rdet<N - 1>(rminor(a, j, i));
  return r;
}
template <sz R, sz C> rvec<R> rmulvec(rmat<R, C> const &a, rvec<C> const &v)
{
  rvec<R> r{};
  for (sz i = 0; i < R; ++i)
    for (sz j = 0; j < C; ++j)
      r[i] += a.at(i, j) * v[j];
  return r;
}
template <sz N> rvec<N> rvadd(rvec<N> const &a, rvec<N> const &b)
{
  rvec<N> r{};
  for (sz i = 0; i < N; ++i)
    r[i] = a[i] + b[i];
  return r;
}
template <sz N> rvec<N> rvsub(rvec<N> const &a, rvec<N> const &b)
{
  rvec<N> r{};
  for (sz i = 0; i < N; ++i)
    r[i] = a[i] - b[i];
  return r;
}
template <sz N> rvec<N> rvmul(rvec<N> const &a, rvec<N> const &b)
{
  rvec<N> r{};
  for (sz i = 0; i < N; ++i)
    r[i] = a[i] * b[i];
  return r;
}
template <sz N> rvec<N> rvscal(long k, rvec<N> const &a)
{
  rvec<N> r{};
  for (sz i = 0; i < N; ++i)
    r[i] = k * a[i];
  return r;
}
template <sz N> long rvdot(rvec<N> const &a, rvec<N> const &b)
{
  long s = 0;
  for (sz i = 0; i < N; ++i)
    s += a[i] * b[i];
  return s;
}
inline rvec<3> rvcross(rvec<3> const &a, rvec<3> const &b)
{
  return rvec<3>{a[1] * b[2] - a[2] * b[1], a[2] * b[0] - a[0] * b[2], a[0] * b[1] - a[1] * b[0]};
}
template <sz N> bool rvzero(rvec<N> const &a)
{
  for (long x : a)
    if (x != 0)
      return false;
  return true;
}
template <sz R, sz C> bool rmzero(rmat<R, C> const &a)
{
  for (long x : a.d)
    if (x != 0)
      return false;
  return true;
}
template <sz R, sz C> int rnnz(rmat<R, C> const &a)
{
  int n = 0;
  for (long x : a.d)
    n += x != 0;
  return n;
}
template <sz N> bool is_zero_or_ident(rmat<N, N> const &a) { return rmzero(a) || a == rident<N>(); }

// ------------------------------------------------------------------ printing
template <sz R, sz C> std::string show(rmat<R, C> const &a)
{
  std::string s = "[";
  for (sz i = 0; i < R; ++i)
  {
    s += i ? ",[" : "[";
    for (sz j = 0; j < C; ++j)
    {
      if (j)
        s += ",";
      s += std::to_string(a.at(i, j));
    }
    s += "]";
  }
  return s + "]";
}
template <sz N> std::string show(rvec<N> const &a)
{
  std::string s = "(";
  for (sz i = 0; i < N; ++i)
  {
    if (i)
      s += ",";
    s += std::to_string(a[i]);
  }
  return s + ")";
}
inline std::string show(long v) { return std::to_string(v); }

// ------------------------------------------------------------------ families
// every RxC matrix with entries from vals (|vals|^(R*C) matrices, odometer order)
template <sz R, sz C> std::vector<rmat<R, C>> all_over(std::vector<long> const &vals)
{
  std::vector<rmat<R, C>> out;
  std::array<std::size_t, R * C> idx{};
  for (;;)
  {
    rmat<R, C> m;
    for (sz i = 0; i < R * C; ++i)
      m.d[i] = vals[idx[i]];
    out.push_back(m);
    sz k = 0;
    while (k < R * C && ++idx[k] == vals.size())
      idx[k++] = 0;
    if (k == R * C)
      break;
  }
  return out;
}
// every RxC matrix with at most maxnz non-zero entries, the non-zero entries from nz
template <sz R, sz C> void sparse_rec(std::vector<rmat<R, C>> &out, rmat<R, C> &cur, sz from, int left, std::vector<long> const &nz)
{
  out.push_back(cur);
  if (left == 0)
    return;
  for (sz p = from; p < R * C; ++p)
    for (long v : nz)
    {
      cur.d[p] = v;
      sparse_rec<R, C>(out, cur, p + 1, left - 1, nz);
      cur.d[p] = 0;
    }
}
template <sz R, sz C> std::vector<rmat<R, C>> sparse_over(int maxnz, std::vector<long> const &nz)
{
  std::vector<rmat<R, C>> out;
  rmat<R, C> cur;
  sparse_rec<R, C>(out, cur, 0, maxnz, nz);
  return out;
}
template <sz N> std::vector<rmat<N, N>> permutation_matrices()
{
  std::vector<rmat<N, N>> out;
  std::array<sz, N> p{};
  for (sz i = 0; i < N; ++i)
    p[i] = i;
  do
  {
    rmat<N, N> m;
    for (sz i = 0; i < N; ++i)
      m.at(i, p[i]) = 1;
    out.push_back(m);
  } while (std::next_permutation(p.begin(), p.end()));
  return out;
}
// elementary matrices: transvections I + c*E_ij (i != j, c in {1,-1}) and row scalings
// diag(1,..,c,..,1) with c in {-1,0,2}
template <sz N> std::vector<rmat<N, N>> elementary_matrices()
{
  std::vector<rmat<N, N>> out;
  for (sz i = 0; i < N; ++i)
    for (sz j = 0; j < N; ++j)
      if (i != j)
        for (long c : {1L, -1L})
        {
          rmat<N, N> m = rident<N>();
          m.at(i, j) = c;
          out.push_back(m);
        }
  for (sz i = 0; i < N; ++i)
    for (long c : {-1L, 0L, 2L})
    {
      rmat<N, N> m = rident<N>();
      m.at(i, i) = c;
      out.push_back(m);
    }
  return out;
}
// a matrix whose entries are pairwise different (separates every index)
template <sz R, sz C> rmat<R, C> distinct_matrix(long base = 1, long sign_flip = 0)
{
  rmat<R, C> m;
  for (sz i = 0; i < R * C; ++i)
    m.d[i] = (sign_flip && (i % 2)) ? -(base + static_cast<long>(i)) : base + static_cast<long>(i);
  return m;
}
template <class T> std::vector<T> concat_unique(std::initializer_list<std::vector<T>> parts)
{
  std::vector<T> out;
  std::set<T> seen;
  for (auto const &p : parts)
    for (auto const &x : p)
      if (seen.insert(x).second)
        out.push_back(x);
  return out;
}
// every vector with components in [lo,hi]
template <sz N> std::vector<rvec<N>> all_vectors(long lo, long hi)
{
  std::vector<rvec<N>> out;
  rvec<N> v;
  v.fill(lo);
  for (;;)
  {
    out.push_back(v);
    sz k = 0;
    while (k < N && ++v[k] > hi)
      v[k++] = lo;
    if (k == N)
      break;
  }
  return out;
}

// ------------------------------------------------------------------ storages
// a non-owning storage over a plain array (same shape as the one in
// test/math/vector/view_storage.cpp)
template <typename T, sz N> class view_storage
{
public:
  using value_type = T;
  using size_type = fcppt::math::size_type;
  using storage_size = fcppt::math::static_size<N>;
  using pointer = value_type *;
  using reference = value_type &;
  using const_reference = value_type const &;
  explicit view_storage(pointer const _data) : data_(_data) {}
  reference operator[](size_type const _index) { return data_[_index]; }
  const_reference operator[](size_type const _index) const { return data_[_index]; }

private:
  pointer data_;
};

template <sz R, sz C> using smat = fcppt::math::matrix::static_<I, R, C>;
template <sz R, sz C> using vmat = fcppt::math::matrix::object<I, R, C, view_storage<I, R * C>>;
template <sz N> using svec = fcppt::math::vector::static_<I, N>;
template <sz N> using vvec = fcppt::math::vector::object<I, N, view_storage<I, N>>;
template <sz N> using sdim = fcppt::math::dim::static_<I, N>;
template <sz N> using vdim = fcppt::math::dim::object<I, N, view_storage<I, N>>;

// writes go through the raw row-major storage (documented layout), so the
// constructors/accessors under test are not involved in building operands
template <sz R, sz C> smat<R, C> mk_s(rmat<R, C> const &a)
{
  smat<R, C> m{fcppt::no_init{}};
  for (sz i = 0; i < R * C; ++i)
    m.storage()[i] = static_cast<I>(a.d[i]);
  return m;
}
template <class V, sz N> V mk_sv(rvec<N> const &a)
{
  V v{fcppt::no_init{}};
  for (sz i = 0; i < N; ++i)
    v.storage()[i] = static_cast<I>(a[i]);
  return v;
}
// exact-size heap buffer (ASan sees any out-of-range index) + view objects over it
template <sz N> struct buf
{
  std::unique_ptr<I[]> p;
  buf() : p(new I[N]) {}
  explicit buf(rvec<N> const &a) : p(new I[N])
  {
    for (sz i = 0; i < N; ++i)
      p[i] = static_cast<I>(a[i]);
  }
  template <sz R, sz C> vmat<R, C> mat() const
  {
    static_assert(R * C == N);
    return vmat<R, C>{view_storage<I, N>(p.get())};
  }
  vvec<N> vec() const { return vvec<N>{view_storage<I, N>(p.get())}; }
  vdim<N> dim() const { return vdim<N>{view_storage<I, N>(p.get())}; }
  rvec<N> read() const
  {
    rvec<N> r{};
    for (sz i = 0; i < N; ++i)
      r[i] = p[i];
    return r;
  }
};
template <sz R, sz C> buf<R * C> mk_buf(rmat<R, C> const &a) { return buf<R * C>(a.d); }

// read a matrix / vector / dim result back through its raw storage
template <class M> rmat<M::static_rows::value, M::static_columns::value> rd(M const &m)
{
  constexpr sz R = M::static_rows::value, C = M::static_columns::value;
  rmat<R, C> r;
  for (sz i = 0; i < R * C; ++i)
    r.d[i] = static_cast<long>(m.storage()[i]);
  return r;
}
template <class V> rvec<V::static_size::value> rdv(V const &v)
{
  constexpr sz N = V::static_size::value;
  rvec<N> r{};
  for (sz i = 0; i < N; ++i)
    r[i] = static_cast<long>(v.storage()[i]);
  return r;
}

// ------------------------------------------------------------------ reporting
// lazily produced descriptor for cases announced with integers (family indices)
struct case_ctx
{
  std::string (*print)(void const *) = nullptr;
  void const *data = nullptr;
};
inline case_ctx g_ctx;
inline void describe_now()
{
  if (g_ctx.print)
    vrt::describe(g_ctx.print(g_ctx.data));
}
inline void failv(std::string const &sig, std::string const &what)
{
  describe_now();
  vrt::fail(sig, what);
}
inline void sample_lazy()
{
  std::uint64_t const e = vrt::S().page->evaluations;
  if (e == 1 || (e & (e - 1)) == 0)
  {
    describe_now();
    vrt::maybe_sample();
  }
}
// checks: signature and message are only built on failure
#define C14_EQ(got, want, sig, what)                                                              \
  do                                                                                              \
  {                                                                                               \
    auto const &c14_g_ = (got);                                                                   \
    auto const &c14_w_ = (want);                                                                  \
    if (!(c14_g_ == c14_w_))                                                                      \
      ::c14::failv((sig), std::string(what) + ": got " + ::c14::show(c14_g_) + " want " + ::c14::show(c14_w_)); \
  } while (0)
#define C14_TRUE(cond, sig, what)          \
  do                                       \
  {                                        \
    if (!(cond))                           \
      ::c14::failv((sig), (what));         \
  } while (0)

template <sz R, sz C, class F> void static_for_rc(F &&f)
{
  [&]<std::size_t... Is>(std::index_sequence<Is...>)
  {
    (f(std::integral_constant<sz, Is / C>{}, std::integral_constant<sz, Is % C>{}), ...);
  }
  (std::make_index_sequence<R * C>{});
}
template <sz N, class F> void static_for(F &&f)
{
  [&]<std::size_t... Is>(std::index_sequence<Is...>) { (f(std::integral_constant<sz, Is>{}), ...); }
  (std::make_index_sequence<N>{});
}

inline std::vector<long> range(long lo, long hi)
{
  std::vector<long> r;
  for (long v = lo; v <= hi; ++v)
    r.push_back(v);
  return r;
}
inline std::string shape(sz r, sz c) { return std::to_string(r) + "x" + std::to_string(c); }

// Products whose left operand has more rows than columns ("tall left", rows(left) >
// inner dimension) are instantiated only in the second binary C14b (C14_WITH_TALL=1): a
// library change that breaks just this shape class must not take the run-time verdict
// of all other shards with it.  Each such instantiation class is also a compile probe.
#ifndef C14_WITH_TALL
#define C14_WITH_TALL 0
#endif
constexpr bool tall_left_ok(sz rows, sz inner) { return rows <= inner || C14_WITH_TALL != 0; }
// The same holds for writes of the built-in scalar int *through an accessor* (at_r_c(m) = 7 ...):
// if an accessor stops returning a reference such a statement no longer compiles, so these
// instantiations live in C14b only (and in compile probes); the binary C14 does the same writes
// with the class-type scalar quat (C14_access.hpp), where the defect is a lost write at run time.
inline constexpr bool int_writes_ok = C14_WITH_TALL != 0;

// shard registration entry points of the translation units
void register_m2();
void register_m3();
void register_m4();
void register_m4b();
void register_rect();
void register_rect_b();
void register_rect_c();
void register_rect_d();
void register_vec();
void register_dim();
void register_shapes();
void register_scalar();
void register_access();
void register_narrow();
void register_narrow_mixed_a();
void register_narrow_mixed_b();
void register_strided_vec();
void register_strided_vec4();
void register_strided_dim();
void register_strided_mat();
void register_strided_mat3();
}

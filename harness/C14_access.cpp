// C14_access.cpp -- write/read access through every reference-returning accessor with the
// class-type scalar quat (see C14_access.hpp; the int instantiations are in the binary C14b).
#include "C14_access.hpp"

namespace c14
{
void register_access()
{
  vrt::shard("write_access/quat", [] { access::all_write_access<quat>(); });
}
}

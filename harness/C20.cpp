// C20 -- random wrappers are transparent and stay within the requested bounds.
// Engine E: complete enumeration of (engine, result type, interval / parameter set, seed)
// over the stated finite seed set; lock-step differential against the std:: engine +
// std:: distribution the wrappers are documented to wrap.  Nothing is sampled: the
// "random" numbers are a deterministic function of the enumerated seed.
//
// This TU: the generators themselves and uniform_int with plain signed result types.
// C20_unsigned.cpp: plain unsigned result types.  C20_wrapped.cpp: strong-typedef result types.
// C20_enum.cpp: enum result types and make_uniform_enum.  C20_real.cpp: uniform_real, normal.
// C20_container.cpp: index / container factories, uniform_container, shared generators,
// param() setter.
#include "C20_common.hpp"

namespace
{
using namespace c20;

// ------------------------------------------------------------------ generators
// basic_pseudo<G>(seed) must be G(seed): same raw sequence, same min/max; the
// seed-sequence constructor must be G(seq).
template <class E> void generator_family()
{
  using G = typename E::fc;
  static_assert(std::is_same_v<typename G::result_type, typename E::sd::result_type>);
  static_assert(G::min() == E::sd::min() && G::max() == E::sd::max(), "min/max of the wrapped engine");
  std::string const nm = std::string("generator<") + E::name + ">";
  char const *const fn = intern(nm);
  char const *const fn_seq = intern(nm + "(seed_seq)");
  int const n = 1300; // crosses the 624-word refill of mt19937 twice
  for (u64 const seed : seeds())
  {
    if (announce(fn, seed))
    {
      vrt::nontrivial(true);
      vrt::maybe_sample();
      typename E::sd ref = sd_engine<E>(seed);
      G g(fc_seed<E>(seed));
      for (int i = 0; i < n; ++i)
      {
        auto const want = ref();
        auto const got = g();
        if (got != want)
        {
          vrt::fail(nm + ":sequence", vrt::fmt("draw %d: got %s want %s", i, show(got).c_str(), show(want).c_str()));
          break;
        }
        if (!(G::min() <= got && got <= G::max()))
        {
          vrt::fail(nm + ":out_of_bounds", vrt::fmt("draw %d: %s", i, show(got).c_str()));
          break;
        }
      }
    }
    if (announce(fn_seq, seed))
    {
      vrt::nontrivial(true);
      std::uint32_t const w0 = static_cast<std::uint32_t>(seed), w1 = static_cast<std::uint32_t>(seed >> 32);
      std::seed_seq s1{w0, w1, std::uint32_t(7)};
      std::seed_seq s2{w0, w1, std::uint32_t(7)};
      typename E::sd ref(s1);
      G g(s2);
      for (int i = 0; i < 64; ++i)
      {
        auto const want = ref();
        auto const got = g();
        if (got != want)
        {
          vrt::fail(nm + ":seed_seq_sequence",
                    vrt::fmt("draw %d: got %s want %s", i, show(got).c_str(), show(want).c_str()));
          break;
        }
      }
    }
  }
}

template <class T> void plain_shards(char const *tname)
{
  constexpr unsigned nparts = 2;
  for (unsigned part = 0; part < nparts; ++part)
  {
    std::string const t = tname;
    std::string sn = tname;
    for (char &ch : sn)
      if (ch == ' ')
        ch = '_';
    vrt::shard("uniform_int/" + sn + "/minstd_rand/" + std::to_string(part),
               [t, part] {
                 if (part == 0)
                   roundtrip_uniform_int<T>(t, boundary_values<T>());
                 uniform_int_family<eng_minstd, T>(t, all_intervals<T>(), part, nparts);
               });
    vrt::shard("uniform_int/" + sn + "/mt19937/" + std::to_string(part),
               [t, part] { uniform_int_family<eng_mt, T>(t, all_intervals<T>(), part, nparts); });
  }
}
}

void c20::register_plain()
{
  vrt::shard("generator/minstd_rand", [] { generator_family<eng_minstd>(); });
  vrt::shard("generator/mt19937", [] { generator_family<eng_mt>(); });
  plain_shards<short>("short");
  plain_shards<int>("int");
  plain_shards<long>("long");
  plain_shards<long long>("long long");
}

int main(int argc, char **argv)
{
  c20::register_plain();
  c20::register_unsigned();
  c20::register_wrapped();
  c20::register_enum();
  c20::register_real();
  c20::register_normal();
  c20::register_user();
  c20::register_container();
  return vrt::run(argc, argv);
}

// C08, part 3: resize, map, apply, fill (cell by cell against the documented definition) and the clamp helpers
// clamped_min / clamped_sup / clamped_sup_signed.
#include <C08_common.hpp>

#include <fcppt/container/grid/apply.hpp>
#include <fcppt/container/grid/clamped_min.hpp>
#include <fcppt/container/grid/clamped_sup.hpp>
#include <fcppt/container/grid/clamped_sup_signed.hpp>
#include <fcppt/container/grid/fill.hpp>
#include <fcppt/container/grid/map.hpp>
#include <fcppt/container/grid/min.hpp>
#include <fcppt/container/grid/object.hpp>
#include <fcppt/container/grid/resize.hpp>
#include <fcppt/container/grid/sup.hpp>

#include <limits>
#include <memory>
#include <optional>
#include <type_traits>
#include <utility>

namespace c08
{
namespace
{
using S = std::size_t;
template <std::size_t N> using igrid = g::object<int, N>;
template <std::size_t N> using lgrid = g::object<long, N>;
template <std::size_t N> using ugrid = g::object<std::unique_ptr<int>, N>;

template <std::size_t N> std::string inst(char const *f) { return std::string(f) + "<" + std::to_string(N) + ">"; }

template <std::size_t N> igrid<N> make_grid(A3 const &sz, int mul = 1)
{
  return igrid<N>(mkdim<S, N>(sz), [mul](typename igrid<N>::pos const &p) { return mul * enc(comps<N>(p, 0)); });
}
template <std::size_t N> ugrid<N> make_ugrid(A3 const &sz)
{
  return ugrid<N>(mkdim<S, N>(sz),
                  [](typename ugrid<N>::pos const &p) { return std::make_unique<int>(enc(comps<N>(p, 0))); });
}

// compare a result grid cell by cell with want(pos); Get maps a cell to a long
template <std::size_t N, class Grid, class Get, class Want>
void check_cells(Grid const &r, A3 const &sz, std::string const &sig, Get const &get, Want const &want)
{
  if (comps<N>(r.size(), 1) != sz)
  {
    vrt::fail(sig + ":size", "result has size " + show(N, comps<N>(r.size(), 1)) + ", want " + show(N, sz));
    return;
  }
  std::vector<A3> const ref = ref_range(N, A3{0, 0, 0}, sz);
  if (static_cast<std::size_t>(r.end() - r.begin()) != ref.size())
  {
    vrt::fail(sig + ":storage", vrt::fmt("result stores %td cells, want %zu", r.end() - r.begin(), ref.size()));
    return;
  }
  for (std::size_t k = 0; k < ref.size(); ++k)
  {
    long const got = get(*(r.begin() + static_cast<std::ptrdiff_t>(k)));
    long const w = want(ref[k]);
    if (got != w)
    {
      vrt::fail(sig + ":cell", vrt::fmt("cell %s (storage[%zu]) = %ld, want %ld", show(N, ref[k]).c_str(), k, got, w));
      return;
    }
    long const got2 = get(r.get_unsafe(mkpos<S, N>(ref[k])));
    if (got2 != w)
    {
      vrt::fail(sig + ":cell_by_pos", vrt::fmt("get_unsafe(%s) = %ld, want %ld", show(N, ref[k]).c_str(), got2, w));
      return;
    }
  }
}

// ---------------------------------------------------------------- resize
template <std::size_t N> void resize_all(unsigned part, unsigned nparts)
{
  static std::string const fn = inst<N>("resize");
  static std::string const fnm = inst<N>("resize_rvalue");
  std::vector<A3> const sizes = tuples(N, 0, max_extent(N), 1);
  unsigned oi = 0;
  for (A3 const &old_sz : sizes)
  {
    if (oi++ % nparts != part)
      continue;
    if (vrt::out_of_time())
      return;
    std::optional<igrid<N>> holder; // built inside the first announced case of this old size
    for (A3 const &new_sz : sizes)
    {
      std::vector<A3> const ref = ref_range(N, A3{0, 0, 0}, new_sz);
      std::size_t kept = 0;
      for (A3 const &p : ref)
        kept += ref_in_range(N, old_sz, p) ? 1U : 0U;
      std::string const descr = " old=" + show(N, old_sz) + " new=" + show(N, new_sz);
      auto const want = [&old_sz](A3 const &p) -> long { return ref_in_range(N, old_sz, p) ? enc(p) : -enc(p); };
      bool const nt = kept > 0 && kept < ref.size(); // the result mixes kept and new cells
      if (vrt::begin_text(fn.c_str(), fn + descr))
      {
        vrt::nontrivial(nt);
        vrt::maybe_sample();
        if (!holder)
          holder.emplace(make_grid<N>(old_sz));
        igrid<N> const &old_grid = *holder;
        std::size_t calls = 0;
        bool init_inside = false;
        igrid<N> const r = g::resize(old_grid, mkdim<S, N>(new_sz), [&](typename igrid<N>::pos const &p) {
          ++calls;
          init_inside = init_inside || ref_in_range(N, old_sz, comps<N>(p, 0));
          return -enc(comps<N>(p, 0));
        });
        check_cells<N>(r, new_sz, fn, [](int v) -> long { return v; }, want);
        // the documentation fixes the cells of the result, not when or how often _init is evaluated: information only
        info_check(!init_inside, fn + ":init_for_old_cell");
        info_check(calls == ref.size() - kept, fn + ":init_calls");
        check_cells<N>(old_grid, old_sz, fn + ":source_changed", [](int v) -> long { return v; },
                       [](A3 const &p) -> long { return enc(p); });
      }
      if (vrt::begin_text(fnm.c_str(), fnm + descr))
      {
        vrt::nontrivial(nt);
        ugrid<N> const r = g::resize(make_ugrid<N>(old_sz), mkdim<S, N>(new_sz), [](typename ugrid<N>::pos const &p) {
          return std::make_unique<int>(-enc(comps<N>(p, 0)));
        });
        check_cells<N>(r, new_sz, fnm, [](std::unique_ptr<int> const &v) -> long { return v ? *v : 0; }, want);
      }
    }
  }
}

// ---------------------------------------------------------------- map, fill
template <std::size_t N> void map_fill_all()
{
  static std::string const fnmap = inst<N>("map");
  static std::string const fnmapm = inst<N>("map_rvalue");
  static std::string const fnfill = inst<N>("fill");
  for (A3 const &sz : tuples(N, 0, max_extent(N), 1))
  {
    std::vector<A3> const ref = ref_range(N, A3{0, 0, 0}, sz);
    std::string const descr = " size=" + show(N, sz);
    if (vrt::begin_text(fnmap.c_str(), fnmap + descr))
    {
      vrt::nontrivial(ref.size() >= 2);
      vrt::maybe_sample();
      igrid<N> const src = make_grid<N>(sz);
      std::size_t calls = 0;
      lgrid<N> const r = g::map(src, [&calls](int const v) -> long {
        ++calls;
        return 1000L + 3L * v;
      });
      check_cells<N>(r, sz, fnmap, [](long v) { return v; }, [](A3 const &p) -> long { return 1000L + 3L * enc(p); });
      info_check(calls == ref.size(), fnmap + ":calls"); // number of invocations is not documented
      check_cells<N>(src, sz, fnmap + ":source_changed", [](int v) -> long { return v; },
                     [](A3 const &p) -> long { return enc(p); });
    }
    if (vrt::begin_text(fnmapm.c_str(), fnmapm + descr))
    {
      vrt::nontrivial(ref.size() >= 2);
      lgrid<N> const r = g::map(make_ugrid<N>(sz), [](std::unique_ptr<int> &&v) -> long {
        std::unique_ptr<int> const taken(std::move(v));
        return 2000L + *taken;
      });
      check_cells<N>(r, sz, fnmapm, [](long v) { return v; }, [](A3 const &p) -> long { return 2000L + enc(p); });
    }
    if (vrt::begin_text(fnfill.c_str(), fnfill + descr))
    {
      vrt::nontrivial(ref.size() >= 2);
      igrid<N> grid(mkdim<S, N>(sz), 0);
      std::size_t calls = 0;
      g::fill(grid, [&calls](typename igrid<N>::pos const &p) {
        ++calls;
        return 5 * enc(comps<N>(p, 0));
      });
      check_cells<N>(grid, sz, fnfill, [](int v) -> long { return v; }, [](A3 const &p) -> long { return 5L * enc(p); });
      info_check(calls == ref.size(), fnfill + ":calls"); // number of invocations is not documented
    }
  }
}

// ---------------------------------------------------------------- apply
template <std::size_t N> void apply2_all(unsigned part, unsigned nparts)
{
  static std::string const fn = inst<N>("apply2");
  std::vector<A3> const sizes = tuples(N, 0, max_extent(N), 1);
  unsigned ai = 0;
  for (A3 const &sa : sizes)
  {
    if (ai++ % nparts != part)
      continue;
    if (vrt::out_of_time())
      return;
    std::optional<igrid<N>> holder; // built inside the first announced case of this size1
    for (A3 const &sb : sizes)
    {
      if (!vrt::begin_text(fn.c_str(), fn + " size1=" + show(N, sa) + " size2=" + show(N, sb)))
        continue;
      if (!holder)
        holder.emplace(make_grid<N>(sa));
      igrid<N> const &ga = *holder;
      // non-trivial: a non-empty result, or different sizes with the same number of cells
      vrt::nontrivial((sa == sb && product(N, sa) >= 1) || (sa != sb && product(N, sa) == product(N, sb)));
      vrt::maybe_sample();
      lgrid<N> const gb(mkdim<S, N>(sb), [](typename lgrid<N>::pos const &p) { return 100000L * enc(comps<N>(p, 0)); });
      std::size_t calls = 0;
      lgrid<N> const r = g::apply(
          [&calls](int const a, long const b) -> long {
            ++calls;
            return a + b;
          },
          ga, gb);
      if (sa == sb)
      {
        check_cells<N>(r, sa, fn, [](long v) { return v; }, [](A3 const &p) -> long { return 100001L * enc(p); });
        info_check(calls == static_cast<std::size_t>(product(N, sa)), fn + ":calls"); // not documented
      }
      else
      {
        VRT_CHECK(r.empty() && r.content() == 0 && r.begin() == r.end(), fn + ":not_empty",
                  "different sizes gave a grid with %zu cells", static_cast<std::size_t>(r.end() - r.begin()));
        info_check(calls == 0, fn + ":calls_on_mismatch"); // only "the result is an empty grid" is documented
      }
      // rvalue first grid with move-only cells
      lgrid<N> const rm = g::apply(
          [](std::unique_ptr<int> &&a, long const b) -> long {
            std::unique_ptr<int> const taken(std::move(a));
            return *taken + b;
          },
          make_ugrid<N>(sa), gb);
      if (sa == sb)
        check_cells<N>(rm, sa, fn + ":rvalue", [](long v) { return v; },
                       [](A3 const &p) -> long { return 100001L * enc(p); });
      else
        VRT_CHECK(rm.empty() && rm.begin() == rm.end(), fn + ":rvalue:not_empty", "different sizes gave a non-empty grid");
    }
  }
}

template <std::size_t N> void apply3_all(ll max_ext)
{
  static std::string const fn = inst<N>("apply3");
  std::vector<A3> const sizes = tuples(N, 0, max_ext, 1);
  for (A3 const &sa : sizes)
  {
    if (vrt::out_of_time())
      return;
    for (A3 const &sb : sizes)
    {
      for (A3 const &sc : sizes)
      {
        if (!vrt::begin_text(fn.c_str(),
                             fn + " size1=" + show(N, sa) + " size2=" + show(N, sb) + " size3=" + show(N, sc)))
          continue;
        igrid<N> const ga = make_grid<N>(sa);
        igrid<N> const gb = make_grid<N>(sb, 400);
        bool const same = sa == sb && sa == sc;
        // non-trivial: non-empty result, or exactly one grid deviates
        vrt::nontrivial((same && product(N, sa) >= 1) || (!same && (sa == sb || sa == sc || sb == sc)));
        lgrid<N> const gc(mkdim<S, N>(sc),
                          [](typename lgrid<N>::pos const &p) { return 160000L * enc(comps<N>(p, 0)); });
        lgrid<N> const r = g::apply([](int const a, int const b, long const c) -> long { return a + b + c; }, ga, gb, gc);
        if (same)
          check_cells<N>(r, sa, fn, [](long v) { return v; }, [](A3 const &p) -> long { return 160401L * enc(p); });
        else
          VRT_CHECK(r.empty() && r.content() == 0 && r.begin() == r.end(), fn + ":not_empty",
                    "different sizes gave a grid with %zu cells", static_cast<std::size_t>(r.end() - r.begin()));
      }
    }
  }
}

// ---------------------------------------------------------------- clamp helpers
template <class T> struct tn;
#define C08_TN(T, s)                       \
  template <> struct tn<T>                 \
  {                                        \
    static constexpr char const *v = s;    \
  };
C08_TN(signed char, "schar")
C08_TN(int, "int")
C08_TN(long, "long")
C08_TN(unsigned char, "uchar")
C08_TN(unsigned, "unsigned")
C08_TN(unsigned long, "ulong")

using ull = unsigned long long;

// all tuples over a list of component values (slot 0 fastest)
std::vector<A3> tuples_of(std::size_t N, std::vector<ll> const &vals)
{
  std::vector<ll> const one{0};
  std::vector<A3> r;
  for (ll z : (N >= 3 ? vals : one))
    for (ll y : (N >= 2 ? vals : one))
      for (ll x : vals)
        r.push_back(A3{x, y, z});
  return r;
}

// print components as values of T (an unsigned maximum is stored as -1 in the tuple)
template <class T> std::string show_as(std::size_t N, A3 const &a)
{
  std::string r = "(";
  for (std::size_t i = 0; i < N; ++i)
  {
    if (i)
      r += ',';
    if constexpr (std::is_unsigned_v<T>)
      r += std::to_string(static_cast<ull>(static_cast<T>(a[i])));
    else
      r += std::to_string(a[i]);
  }
  return r + ")";
}

template <class T> std::vector<ll> signed_values(bool small)
{
  ll const lo = std::numeric_limits<T>::min(), hi = std::numeric_limits<T>::max();
  std::vector<ll> r{lo, lo + 1};
  for (ll v = small ? -2 : -3; v <= (small ? 5 : 6); ++v)
    r.push_back(v);
  r.push_back(hi - 1);
  r.push_back(hi);
  return r;
}
template <class T> std::vector<ll> unsigned_values(ll upto, bool with_max)
{
  std::vector<ll> r;
  for (ll v = 0; v <= upto; ++v)
    r.push_back(v);
  if (with_max)
  {
    r.push_back(static_cast<ll>(static_cast<ull>(std::numeric_limits<T>::max() - 1)));
    r.push_back(static_cast<ll>(static_cast<ull>(std::numeric_limits<T>::max())));
  }
  return r;
}

template <class Src, std::size_t N> void clamped_min_all()
{
  using Dst = std::make_unsigned_t<Src>;
  static std::string const fn = std::string("clamped_min<") + tn<Src>::v + "," + std::to_string(N) + ">";
  for (A3 const &p : tuples_of(N, signed_values<Src>(false)))
  {
    if (!vrt::begin_text(fn.c_str(), fn + " pos=" + show_as<Src>(N, p)))
      continue;
    bool clamped = false;
    for (std::size_t i = 0; i < N; ++i)
      clamped = clamped || p[i] < 0;
    vrt::nontrivial(clamped);
    vrt::maybe_sample();
    g::min<Dst, N> const r = g::clamped_min(mkpos<Src, N>(p));
    for (std::size_t i = 0; i < N; ++i)
    {
      ull const want = p[i] < 0 ? 0ULL : static_cast<ull>(p[i]);
      ull const got = static_cast<ull>(r.get().get_unsafe(i));
      VRT_CHECK(got == want, fn + ":wrong", "component %zu: got %llu want %llu", i, got, want);
    }
  }
}

template <class T, std::size_t N> void clamped_sup_all()
{
  static std::string const fn = std::string("clamped_sup<") + tn<T>::v + "," + std::to_string(N) + ">";
  bool const q = vrt::quick() && N == 3;
  std::vector<A3> const poss = tuples_of(N, unsigned_values<T>(q ? 5 : 6, true));
  std::vector<ll> szv = unsigned_values<T>(q ? 3 : 4, false);
  szv.push_back(static_cast<ll>(static_cast<ull>(std::numeric_limits<T>::max())));
  for (A3 const &sz : tuples_of(N, szv))
  {
    if (vrt::out_of_time())
      return;
    for (A3 const &p : poss)
    {
      if (!vrt::begin_text(fn.c_str(), fn + " pos=" + show_as<T>(N, p) + " size=" + show_as<T>(N, sz)))
        continue;
      bool clamped = false;
      for (std::size_t i = 0; i < N; ++i)
        clamped = clamped || static_cast<T>(p[i]) >= static_cast<T>(sz[i]);
      vrt::nontrivial(clamped);
      vrt::maybe_sample();
      g::sup<T, N> const r = g::clamped_sup(mkpos<T, N>(p), mkdim<T, N>(sz));
      for (std::size_t i = 0; i < N; ++i)
      {
        ull const P = static_cast<ull>(static_cast<T>(p[i])), Z = static_cast<ull>(static_cast<T>(sz[i]));
        ull const want = P < Z ? P : Z;
        ull const got = static_cast<ull>(r.get().get_unsafe(i));
        VRT_CHECK(got == want, fn + ":wrong", "component %zu: got %llu want %llu", i, got, want);
      }
    }
  }
}

template <class Dst, class Src, std::size_t N> void clamped_sup_signed_all()
{
  static std::string const fn =
      std::string("clamped_sup_signed<") + tn<Dst>::v + "," + tn<Src>::v + "," + std::to_string(N) + ">";
  bool const q = vrt::quick() && N == 3;
  std::vector<A3> const poss = tuples_of(N, signed_values<Src>(q));
  // sizes that are representable in the signed type (larger ones cannot be converted by to_signed: precondition)
  std::vector<ll> szv = unsigned_values<Dst>(q ? 3 : 4, false);
  szv.push_back(static_cast<ll>(std::numeric_limits<Src>::max()));
  for (A3 const &sz : tuples_of(N, szv))
  {
    if (vrt::out_of_time())
      return;
    for (A3 const &p : poss)
    {
      if (!vrt::begin_text(fn.c_str(), fn + " pos=" + show_as<Src>(N, p) + " size=" + show_as<Dst>(N, sz)))
        continue;
      bool clamped = false;
      for (std::size_t i = 0; i < N; ++i)
        clamped = clamped || p[i] < 0 || p[i] >= sz[i];
      vrt::nontrivial(clamped);
      vrt::maybe_sample();
      g::sup<Dst, N> const r = g::clamped_sup_signed(mkpos<Src, N>(p), mkdim<Dst, N>(sz));
      for (std::size_t i = 0; i < N; ++i)
      {
        ll const want = p[i] < 0 ? 0 : (p[i] > sz[i] ? sz[i] : p[i]);
        ull const got = static_cast<ull>(r.get().get_unsafe(i));
        VRT_CHECK(got == static_cast<ull>(want), fn + ":wrong", "component %zu: got %llu want %lld", i, got, want);
      }
    }
  }
}
}

void register_ops_shards()
{
  vrt::shard("resize12", [] {
    resize_all<1>(0, 1);
    resize_all<2>(0, 1);
  });
  for (unsigned p = 0; p < 8; ++p)
    vrt::shard("resize3/" + std::to_string(p), [p] { resize_all<3>(p, 8); });
  vrt::shard("map_fill", [] {
    map_fill_all<1>();
    map_fill_all<2>();
    map_fill_all<3>();
  });
  vrt::shard("apply2_12", [] {
    apply2_all<1>(0, 1);
    apply2_all<2>(0, 1);
  });
  for (unsigned p = 0; p < 4; ++p)
    vrt::shard("apply2_3/" + std::to_string(p), [p] { apply2_all<3>(p, 4); });
  vrt::shard("apply3", [] {
    apply3_all<1>(max_extent(1));
    apply3_all<2>(vrt::thorough() ? max_extent(2) : 3);
    apply3_all<3>(vrt::thorough() ? 2 : 1);
  });
  vrt::shard("clamped_min", [] {
    clamped_min_all<signed char, 1>();
    clamped_min_all<signed char, 2>();
    clamped_min_all<signed char, 3>();
    clamped_min_all<int, 1>();
    clamped_min_all<int, 2>();
    clamped_min_all<int, 3>();
    clamped_min_all<long, 1>();
    clamped_min_all<long, 2>();
    clamped_min_all<long, 3>();
  });
  vrt::shard("clamped_sup12", [] {
    clamped_sup_all<unsigned char, 1>();
    clamped_sup_all<unsigned char, 2>();
    clamped_sup_all<unsigned, 1>();
    clamped_sup_all<unsigned, 2>();
    clamped_sup_all<unsigned long, 1>();
    clamped_sup_all<unsigned long, 2>();
  });
  vrt::shard("clamped_sup3/uchar", [] { clamped_sup_all<unsigned char, 3>(); });
  vrt::shard("clamped_sup3/unsigned", [] { clamped_sup_all<unsigned, 3>(); });
  vrt::shard("clamped_sup3/ulong", [] { clamped_sup_all<unsigned long, 3>(); });
  vrt::shard("clamped_sup_signed12", [] {
    clamped_sup_signed_all<unsigned char, signed char, 1>();
    clamped_sup_signed_all<unsigned char, signed char, 2>();
    clamped_sup_signed_all<unsigned, int, 1>();
    clamped_sup_signed_all<unsigned, int, 2>();
    clamped_sup_signed_all<unsigned long, long, 1>();
    clamped_sup_signed_all<unsigned long, long, 2>();
  });
  vrt::shard("clamped_sup_signed3/uchar", [] { clamped_sup_signed_all<unsigned char, signed char, 3>(); });
  vrt::shard("clamped_sup_signed3/unsigned", [] { clamped_sup_signed_all<unsigned, int, 3>(); });
  vrt::shard("clamped_sup_signed3/ulong", [] { clamped_sup_signed_all<unsigned long, long, 3>(); });
}
}

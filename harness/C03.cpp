// C03 main + first half of the shape family
#include "C03_common.hpp"

namespace c03
{
int maxlen() { return vrt::thorough() ? 6 : 4; }

#define SHAPE(NAME, PARSER, DESC, ALPHA)                                                       \
  vrt::shard("shape/" NAME, [] {                                                               \
    auto const parser{PARSER};                                                                 \
    run_shape(NAME, parser, DESC, ALPHA, maxlen());                                            \
    run_shape(NAME "+extended_names", parser, DESC, extended_names(ALPHA), 3);                 \
  }, 120)

void register_a()
{
  SHAPE("arg_int", (arg<la, int>("a")), S_arg("la", "a", vt::int_), alpha({"3"}));
  SHAPE("arg_string", (arg<la, std::string>("a")), S_arg("la", "a", vt::string_), alpha({"y"}));
  SHAPE("arg_unsigned", (arg<la, unsigned>("a")), S_arg("la", "a", vt::unsigned_), alpha({"3"}));
  SHAPE("arg_color", (arg<la, color>("a")), S_arg("la", "a", vt::color_), alpha({"red", "green"}));
  SHAPE("switch_short_long", (sw<la>("f", "flag")), S_switch("la", "f", "flag"), alpha({"-f", "--flag"}));
  SHAPE("switch_long", (sw<la>(nullptr, "flag")), S_switch("la", std::nullopt, "flag"), alpha({"-f", "--flag"}));
  SHAPE("flag_string", (fl<la, std::string>("f", "flag", "on", "off")), S_flag("la", "f", "flag", "'on'", "'off'"), alpha({"-f", "--flag"}));
  SHAPE("flag_int", (fl<la, int>("f", "flag", 42, 10)), S_flag("la", "f", "flag", "42", "10"), alpha({"-f", "--flag"}));
  SHAPE("flag_color", (fl<la, color>(nullptr, "flag", color::green, color::red)), S_flag("la", std::nullopt, "flag", "green", "red"), alpha({"--flag"}));
  SHAPE("option_int", (op<la, int>("o", "opt")), S_option("la", "o", "opt", vt::int_, std::nullopt), alpha({"-o", "--opt"}));
  SHAPE("option_int_default", (opd<la, int>(nullptr, "opt", 5)), S_option("la", std::nullopt, "opt", vt::int_, "5"), alpha({"-o", "--opt"}));
  SHAPE("option_string", (op<la, std::string>("o", "opt")), S_option("la", "o", "opt", vt::string_, std::nullopt), alpha({"-o", "--opt"}));
  SHAPE("option_color_default", (opd<la, color>("o", "opt", color::red)), S_option("la", "o", "opt", vt::color_, "red"), alpha({"-o", "--opt", "green"}));
  SHAPE("unit", (o::unit<la>{}), S_unit("la"), alpha({}));
  SHAPE("unit_switch", (usw<la>("u", "unit")), S_unit_switch("la", "u", "unit"), alpha({"-u", "--unit"}));
  SHAPE("product_arg_arg", (o::apply(arg<la, int>("a"), arg<lb, std::string>("b"))),
        S_product({S_arg("la", "a", vt::int_), S_arg("lb", "b", vt::string_)}), alpha({"3"}));
  SHAPE("product_switch_arg", (o::apply(sw<la>("f", "flag"), arg<lb, std::string>("b"))),
        S_product({S_switch("la", "f", "flag"), S_arg("lb", "b", vt::string_)}), alpha({"-f", "--flag"}));
  SHAPE("product_arg_switch", (o::apply(arg<lb, std::string>("b"), sw<la>("f", "flag"))),
        S_product({S_arg("lb", "b", vt::string_), S_switch("la", "f", "flag")}), alpha({"-f", "--flag"}));
  // an option's value must never be taken as the positional argument
  SHAPE("product_option_arg", (o::apply(op<la, std::string>("o", "opt"), arg<lb, std::string>("b"))),
        S_product({S_option("la", "o", "opt", vt::string_, std::nullopt), S_arg("lb", "b", vt::string_)}), alpha({"-o", "--opt"}));
  SHAPE("product_arg_option", (o::apply(arg<lb, std::string>("b"), opd<la, std::string>("o", "opt", std::string("d")))),
        S_product({S_arg("lb", "b", vt::string_), S_option("la", "o", "opt", vt::string_, "'d'")}), alpha({"-o", "--opt"}));
  SHAPE("product_option_switch_arg", (o::apply(opd<la, int>("o", "opt", 1), sw<lb>("f", "flag"), arg<lc, int>("c"))),
        S_product({S_option("la", "o", "opt", vt::int_, "1"), S_switch("lb", "f", "flag"), S_arg("lc", "c", vt::int_)}),
        alpha({"-o", "--opt", "-f", "--flag"}));
  SHAPE("product_option_option", (o::apply(op<la, std::string>("o", "opt"), opd<lb, std::string>("p", "pp", std::string("d")))),
        S_product({S_option("la", "o", "opt", vt::string_, std::nullopt), S_option("lb", "p", "pp", vt::string_, "'d'")}),
        alpha({"-o", "--opt", "-p", "--pp"}));
}
}

int main(int argc, char **argv)
{
  vrt::parse_args(argc, argv);
  c03::register_a();
  c03::register_b();
  c03::register_c();
  c03::register_ctor();
  return vrt::run(argc, argv);
}

// C14_m4.cpp -- 4x4 matrices, unary laws.  Family U4: every matrix with <= 4 (quick: <= 3)
// non-zero entries from {-1,1} (this contains all signed permutation matrices), the
// elementary matrices and two matrices with pairwise different entries.  The 4x4
// determinant is a multilinear form of degree 4, every adjugate entry one of degree 3:
// the family determines every coefficient (index and sign) of the Laplace expansion.
// Thorough tier in addition: all 2^16 dense matrices over {0,1}.
#include "C14_matrix.hpp"
#include "C14_shapes.hpp"

namespace c14
{
namespace
{
std::vector<rmat<4, 4>> fam4_unary()
{
  return concat_unique<rmat<4, 4>>({sparse_over<4, 4>(vrt::thorough() ? 4 : 3, {1, -1}), permutation_matrices<4>(), elementary_matrices<4>(),
                                    {distinct_matrix<4, 4>(1, 0), distinct_matrix<4, 4>(1, 1)}});
}
}

void register_m4()
{
  vrt::shard("shapes/product/inner4", [] {
    // all shape triples RxK * KxC with inner dimension 4 (see C14_shapes.hpp)
    static_for<4>([](auto ri) {
      constexpr sz r = decltype(ri)::value + 1;
      shapes::product_shape<r, 4, 1>();
      shapes::product_shape<r, 4, 2>();
      shapes::product_shape<r, 4, 3>();
      shapes::product_shape<r, 4, 4>();
    });
  });
  vrt::shard("shapes/assoc/1x2.2x3.3x4", [] {
    // associativity through four different extents; no product has more rows than columns on the left
    rect_assoc<1, 2, 3, 4>(make_ops(all_over<1, 2>({-1, 0, 2})), make_ops(sparse_over<2, 3>(2, {-1, 2})), make_ops(sparse_over<3, 4>(1, {-1, 2})));
  });
  for (unsigned p = 0; p < 8; ++p)
    vrt::shard("m4/unary/" + std::to_string(p), [p] {
      auto const all = fam4_unary();
      std::vector<rmat<4, 4>> part;
      for (std::size_t i = p; i < all.size(); i += 8)
        part.push_back(all[i]);
      auto const ops = make_ops(part);
      shape_unary_all<4, 4>(ops, {-2, -1, 3});
      square_unary_all<4>(ops);
    });
  for (unsigned p = 0; p < 16; ++p)
    vrt::shard("m4/unary_dense01/" + std::to_string(p), [p] {
      if (!vrt::thorough())
        return;
      auto const all = all_over<4, 4>({0, 1});
      std::vector<rmat<4, 4>> part;
      for (std::size_t i = p; i < all.size(); i += 16)
        part.push_back(all[i]);
      auto const ops = make_ops(part);
      shape_unary_all<4, 4>(ops, {-3});
      square_unary_all<4>(ops);
    });
}
}

// C14_m4b.cpp -- 4x4 matrices: pairs, triples, matrix*vector and the translation /
// scaling builders with transform_point / transform_direction.
//  P4 (pairs): all matrices with <= 2 (quick: <= 1) non-zero entries from {-1,1},
//              permutation matrices, elementary matrices, two matrices with distinct entries;
//  T4 (triples): <= 1 non-zero entry, permutation, elementary, distinct.
#include "C14_matrix.hpp"

#include <fcppt/math/matrix/scaling.hpp>
#include <fcppt/math/matrix/transform_direction.hpp>
#include <fcppt/math/matrix/transform_point.hpp>
#include <fcppt/math/matrix/translation.hpp>

namespace c14
{
namespace
{
std::vector<rmat<4, 4>> fam4_struct(int maxnz)
{
  return concat_unique<rmat<4, 4>>({sparse_over<4, 4>(maxnz, {1, -1}), permutation_matrices<4>(), elementary_matrices<4>(),
                                    {distinct_matrix<4, 4>(1, 0), distinct_matrix<4, 4>(1, 1)}});
}
rmat<4, 4> ref_translation(rvec<3> const &t)
{
  rmat<4, 4> m = rident<4>();
  for (sz i = 0; i < 3; ++i)
    m.at(i, 3) = t[i];
  return m;
}
rmat<4, 4> ref_scaling(rvec<3> const &t)
{
  rmat<4, 4> m = rident<4>();
  for (sz i = 0; i < 3; ++i)
    m.at(i, i) = t[i];
  return m;
}
rvec<3> first3(rvec<4> const &v) { return rvec<3>{v[0], v[1], v[2]}; }
rvec<4> with_w(rvec<3> const &v, long w) { return rvec<4>{v[0], v[1], v[2], w}; }

void builders_unary(std::vector<rvec<3>> const &ts)
{
  static std::string const fn = "translation_scaling";
  for (auto const &t : ts)
  {
    if (vrt::out_of_time())
      return;
    if (!vrt::begin_text(fn.c_str(), fn + " t=" + show(t)))
      continue;
    vrt::nontrivial(t[0] != t[1] && t[1] != t[2] && t[0] != t[2]); // the three coordinates can be told apart
    vrt::maybe_sample();
    I const x = static_cast<I>(t[0]), y = static_cast<I>(t[1]), z = static_cast<I>(t[2]);
    svec<3> const sv = mk_sv<svec<3>>(t);
    buf<3> const bv(t);
    auto const tr = fm::translation(x, y, z);
    C14_EQ(rd(tr), ref_translation(t), fn + ":translation:wrong", "translation(x,y,z)");
    C14_EQ(rd(fm::translation(sv)), ref_translation(t), fn + ":translation:vector", "translation(vector)");
    C14_EQ(rd(fm::translation(bv.vec())), ref_translation(t), fn + ":translation:vector:view", "translation(view vector)");
    auto const sc = fm::scaling(x, y, z);
    C14_EQ(rd(sc), ref_scaling(t), fn + ":scaling:wrong", "scaling(x,y,z)");
    C14_EQ(rd(fm::scaling(sv)), ref_scaling(t), fn + ":scaling:vector", "scaling(vector)");
    C14_EQ(rd(fm::scaling(bv.vec())), ref_scaling(t), fn + ":scaling:vector:view", "scaling(view vector)");
    C14_EQ(static_cast<long>(fm::determinant(tr)), 1L, fn + ":translation:det", "determinant(translation)");
    C14_EQ(static_cast<long>(fm::determinant(sc)), t[0] * t[1] * t[2], fn + ":scaling:det", "determinant(scaling)");
    C14_EQ(rd(fm::inverse(tr)), ref_translation(rvscal(-1, t)), fn + ":translation:inverse", "inverse(translation(t)) vs translation(-t)");
    C14_TRUE(fm::transpose(sc) == sc, fn + ":scaling:symmetric", "transpose(scaling) != scaling");
  }
}
void builders_pairs(std::vector<rvec<3>> const &ts)
{
  static std::string const fn = "translation_scaling_laws";
  for (auto const &t : ts)
  {
    if (vrt::out_of_time())
      return;
    svec<3> const st = mk_sv<svec<3>>(t);
    auto const tr = fm::translation(st);
    auto const sc = fm::scaling(st);
    for (auto const &u : ts)
    {
      if (!vrt::begin_text(fn.c_str(), fn + " t=" + show(t) + " u=" + show(u)))
        continue;
      vrt::nontrivial(!rvzero(t) && !rvzero(u) && !(t == u));
      vrt::maybe_sample();
      svec<3> const su = mk_sv<svec<3>>(u);
      buf<3> const bu(u);
      C14_EQ(rd(tr * fm::translation(su)), ref_translation(rvadd(t, u)), fn + ":translation:compose", "translation(t)*translation(u) vs translation(t+u)");
      C14_EQ(rd(sc * fm::scaling(su)), ref_scaling(rvmul(t, u)), fn + ":scaling:compose", "scaling(t)*scaling(u) vs scaling(t*u)");
      C14_EQ(rdv(fm::transform_point(tr, su)), rvadd(t, u), fn + ":transform_point:translation", "transform_point(translation(t), u)");
      C14_EQ(rdv(fm::transform_point(tr, bu.vec())), rvadd(t, u), fn + ":transform_point:translation:view", "transform_point(translation(t), view u)");
      C14_EQ(rdv(fm::transform_direction(tr, su)), u, fn + ":transform_direction:translation", "transform_direction(translation(t), u)");
      C14_EQ(rdv(fm::transform_point(sc, su)), rvmul(t, u), fn + ":transform_point:scaling", "transform_point(scaling(t), u)");
      C14_EQ(rdv(fm::transform_direction(sc, su)), rvmul(t, u), fn + ":transform_direction:scaling", "transform_direction(scaling(t), u)");
      // scale then translate: p -> t + t*u ... as one matrix
      C14_EQ(rdv(fm::transform_point(tr * sc, su)), rvadd(t, rvmul(t, u)), fn + ":transform_point:compose", "transform_point(translation(t)*scaling(t), u)");
    }
  }
}
void transform_general(std::vector<op<4, 4>> const &fam, std::vector<rvec<3>> const &ps)
{
  static std::string const fn = "transform_point_direction";
  for (auto const &A : fam)
  {
    if (vrt::out_of_time())
      return;
    for (auto const &p : ps)
    {
      if (!vrt::begin_text(fn.c_str(), fn + " A=" + show(A.r) + " p=" + show(p)))
        continue;
      vrt::nontrivial(!rmzero(A.r) && !rvzero(p));
      vrt::maybe_sample();
      svec<3> const sp = mk_sv<svec<3>>(p);
      buf<3> const bp(p);
      rvec<3> const wp = first3(rmulvec(A.r, with_w(p, 1))), wd = first3(rmulvec(A.r, with_w(p, 0)));
      C14_EQ(rdv(fm::transform_point(A.s, sp)), wp, fn + ":point:wrong", "transform_point(A,p)");
      C14_EQ(rdv(fm::transform_point(A.v(), bp.vec())), wp, fn + ":point:wrong:view", "transform_point(A,p) (view storages)");
      C14_EQ(rdv(fm::transform_direction(A.s, sp)), wd, fn + ":direction:wrong", "transform_direction(A,p)");
      C14_EQ(rdv(fm::transform_direction(A.v(), bp.vec())), wd, fn + ":direction:wrong:view", "transform_direction(A,p) (view storages)");
    }
  }
}
}

void register_m4b()
{
  for (unsigned p = 0; p < 8; ++p)
    vrt::shard("m4/pairs/" + std::to_string(p), [p] {
      auto const ops = make_ops(fam4_struct(vrt::thorough() ? 2 : 1));
      sum_pairs_all<4, 4>(ops, p, 8);
      product_pairs_all<4, 4, 4>(ops, ops, p, 8);
      square_pairs_all<4>(ops, p, 8);
    });
  for (unsigned p = 0; p < 16; ++p)
    vrt::shard("m4/triples/" + std::to_string(p), [p] {
      auto ops = make_ops(fam4_struct(1));
      if (!vrt::thorough()) // quick: every third member
      {
        std::vector<rmat<4, 4>> sub;
        auto const all = fam4_struct(1);
        for (std::size_t i = 0; i < all.size(); i += 3)
          sub.push_back(all[i]);
        ops = make_ops(sub);
      }
      ring_triples<4>(ops, p, 16);
    });
  vrt::shard("m4/matvec", [] {
    matvec_all<4, 4>(make_ops(fam4_struct(vrt::thorough() ? 2 : 1)), all_vectors<4>(-1, 1));
    matvec_all<4, 4>(make_ops(fam4_struct(vrt::thorough() ? 4 : 3)), {rvec<4>{1, 2, 3, 4}, rvec<4>{-1, 2, -3, 5}});
  });
  vrt::shard("m4/matvec_laws", [] {
    auto const ops = make_ops(fam4_struct(1));
    matvec_laws<4, 4, 4>(ops, ops, vrt::thorough() ? all_vectors<4>(-1, 1) : std::vector<rvec<4>>{rvec<4>{1, 2, 3, 4}, rvec<4>{-1, 2, -3, 5}, rvec<4>{0, 0, 1, 0}}, 0, 1);
  });
  vrt::shard("m4/builders", [] {
    builders_unary(vrt::thorough() ? all_vectors<3>(-9, 9) : all_vectors<3>(-3, 3));
    builders_pairs(vrt::thorough() ? all_vectors<3>(-3, 3) : all_vectors<3>(-1, 1));
    transform_general(make_ops(fam4_struct(vrt::thorough() ? 2 : 1)), all_vectors<3>(-1, 1));
  });
}
}

// C05 -- value conservation for elements that are themselves fcppt containers of the instrumented type.
// A std::vector<X> that has to reallocate relocates its elements with std::move_if_noexcept: if X's move constructor is
// not noexcept, every tracked element inside is COPIED although everything involved is an rvalue.  For every
// X in {grid::object<tracked,2>, tree::object<tracked>, optional::object<tracked>, either::object<tracked_b,tracked>,
// variant::object<tracked,tracked_b>, array::object<tracked,2>, tuple::object<tracked,tracked_b>, record{tracked,int},
// strong_typedef<tracked>, recursive<tracked>, unique_ptr<tracked>} the following must not copy any tracked element:
//   push_back / emplace_back of an rvalue X into a vector at capacity; container::join(v1, v2) with v1 at capacity (all
//   value categories; only rvalue-origin elements are held to the rule); algorithm::map_optional and map_concat producing
//   two or more X into a vector (from ints, and from a make_move_range of X); optional::cat of two or more X.
// Signatures: nested_in_vector:<X>:<argument>:rvalue_element_copied (plus the usual result checks).
// On the unmodified tree every X is nothrow-move-constructible (recorded as counters info:nothrow_move_constructible:<X>);
// the checks do NOT consult the trait (a lost noexcept is exactly what they are there to find).  raw_vector holds trivial
// types only and is not part of this.
#include "C05_common.hpp"
#include "C05_record_collect.hpp"

#include <fcppt/make_strong_typedef.hpp>
#include <fcppt/make_unique_ptr.hpp>
#include <fcppt/recursive_impl.hpp>
#include <fcppt/strong_typedef_impl.hpp>
#include <fcppt/unique_ptr_impl.hpp>
#include <fcppt/algorithm/map_concat.hpp>
#include <fcppt/algorithm/map_optional.hpp>
#include <fcppt/array/object_impl.hpp>
#include <fcppt/container/join.hpp>
#include <fcppt/container/make_move_range.hpp>
#include <fcppt/container/grid/object.hpp>
#include <fcppt/container/tree/object_impl.hpp>
#include <fcppt/either/object_impl.hpp>
#include <fcppt/optional/cat.hpp>
#include <fcppt/optional/object_impl.hpp>
#include <fcppt/record/element.hpp>
#include <fcppt/record/make_label.hpp>
#include <fcppt/record/object_impl.hpp>
#include <fcppt/tuple/object_impl.hpp>
#include <fcppt/variant/object_impl.hpp>

#include <map>

namespace
{
FCPPT_RECORD_MAKE_LABEL(la);
FCPPT_RECORD_MAKE_LABEL(lb);
FCPPT_MAKE_STRONG_TYPEDEF(c05::tracked, strong_tracked);
}

namespace c05
{
template <class T, class Tag> struct custom_collect<fcppt::strong_typedef<T, Tag>> : std::true_type
{
  static void run(fcppt::strong_typedef<T, Tag> const &_v, std::vector<item> &_out) { collect(_v.get(), _out); }
};
template <class T> struct custom_collect<fcppt::recursive<T>> : std::true_type
{
  static void run(fcppt::recursive<T> const &_v, std::vector<item> &_out) { collect(_v.get(), _out); }
};
template <class T> struct custom_collect<fcppt::unique_ptr<T>> : std::true_type
{
  static void run(fcppt::unique_ptr<T> const &_v, std::vector<item> &_out)
  {
    if (_v.get_pointer() != nullptr)
      collect(*_v.get_pointer(), _out);
  }
};
}

namespace
{
using namespace c05;

using x_grid = fcppt::container::grid::object<tracked, 2>;
using x_tree = fcppt::container::tree::object<tracked>;
using x_optional = fcppt::optional::object<tracked>;
using x_either = fcppt::either::object<tracked_b, tracked>;
using x_variant = fcppt::variant::object<tracked, tracked_b>;
using x_array = fcppt::array::object<tracked, 2>;
using x_tuple = fcppt::tuple::object<tracked, tracked_b>;
using x_record = fcppt::record::object<fcppt::record::element<la, tracked>, fcppt::record::element<lb, int>>;
using x_strong = strong_tracked;
using x_recursive = fcppt::recursive<tracked>;
using x_unique = fcppt::unique_ptr<tracked>;

template <class X> struct nest;
template <> struct nest<x_grid>
{
  static constexpr char const *name = "grid::object<tracked,2>";
  static x_grid make(int b)
  {
    return x_grid(x_grid::dim(2U, 1U), [b](x_grid::pos const &p) { return tracked(b + static_cast<int>(p.x())); });
  }
};
template <> struct nest<x_tree>
{
  static constexpr char const *name = "tree::object<tracked>";
  static x_tree make(int b)
  {
    x_tree t{tracked(b)};
    t.push_back(tracked(b + 1));
    return t;
  }
};
template <> struct nest<x_optional>
{
  static constexpr char const *name = "optional::object<tracked>";
  static x_optional make(int b) { return x_optional{tracked(b)}; }
};
template <> struct nest<x_either>
{
  static constexpr char const *name = "either::object<tracked_b,tracked>";
  static x_either make(int b) { return (b / 10) % 2 ? x_either{tracked_b(b)} : x_either{tracked(b)}; }
};
template <> struct nest<x_variant>
{
  static constexpr char const *name = "variant::object<tracked,tracked_b>";
  static x_variant make(int b) { return (b / 10) % 2 ? x_variant{tracked_b(b)} : x_variant{tracked(b)}; }
};
template <> struct nest<x_array>
{
  static constexpr char const *name = "array::object<tracked,2>";
  static x_array make(int b) { return x_array{tracked(b), tracked(b + 1)}; }
};
template <> struct nest<x_tuple>
{
  static constexpr char const *name = "tuple::object<tracked,tracked_b>";
  static x_tuple make(int b) { return x_tuple{tracked(b), tracked_b(b + 1)}; }
};
template <> struct nest<x_record>
{
  static constexpr char const *name = "record::object<tracked,int>";
  static x_record make(int b) { return x_record{la{} = tracked(b), lb{} = b}; }
};
template <> struct nest<x_strong>
{
  static constexpr char const *name = "strong_typedef<tracked>";
  static x_strong make(int b) { return x_strong{tracked(b)}; }
};
template <> struct nest<x_recursive>
{
  static constexpr char const *name = "recursive<tracked>";
  static x_recursive make(int b) { return x_recursive{tracked(b)}; }
};
template <> struct nest<x_unique>
{
  static constexpr char const *name = "unique_ptr<tracked>";
  static x_unique make(int b) { return fcppt::make_unique_ptr<tracked>(b); }
};

// a vector of at least n elements that is filled up to its capacity, so that the next insertion reallocates (reserve(n)
// may give more than n: the vector is then simply filled further; no assumption about the growth policy)
template <class X> std::vector<X> full_vector(int const n, int const base)
{
  std::vector<X> v;
  v.reserve(static_cast<std::size_t>(n));
  for (int i = 0; i < n || v.size() < v.capacity(); ++i)
    v.push_back(nest<X>::make(base + 10 * i));
  return v;
}

std::vector<int> grow_sizes() { return vrt::thorough() ? std::vector<int>{1, 2, 3, 4, 5, 8} : std::vector<int>{1, 2, 3}; }
std::vector<int> produce_sizes() { return vrt::thorough() ? std::vector<int>{2, 3, 4, 5, 9} : std::vector<int>{2, 3, 5}; }

template <class X> void nested_all()
{
  std::string const op = std::string("nested_in_vector:") + nest<X>::name;
  constexpr bool copyable = std::is_copy_constructible_v<X>;
  vrt::count(std::string("info:nothrow_move_constructible:") + nest<X>::name, std::is_nothrow_move_constructible_v<X> ? 1 : 0);
  vrt::count(std::string("info:nothrow_move_assignable:") + nest<X>::name, std::is_nothrow_move_assignable_v<X> ? 1 : 0);

  // ---- push_back / emplace_back beyond capacity
  for (int n : grow_sizes())
    for (int how = 0; how < 2; ++how)
      run_case(op, std::string(how ? "emplace_back" : "push_back") + " into a vector at capacity, n=" + std::to_string(n) +
                       ", vector:rvalue-owned, element:rvalue",
               true, [&](ctx &x) {
                 std::vector<X> v = full_vector<X>(n, 100);
                 X e = nest<X>::make(900);
                 std::vector<int> const want = ids_of(v) + ids_of(e);
                 x.inout("vector", v);
                 x.arg("element", cat::rv, e);
                 x.arm();
                 if (how)
                   v.emplace_back(std::move(e));
                 else
                   v.push_back(std::move(e));
                 x.disarm();
                 x.result_is(v, want, "vector");
               });

  // ---- container::join(v1, v2), v1 at capacity
  auto const join_case = [&](auto c1, auto c2, int n1, int n2) {
    constexpr cat C1 = decltype(c1)::value;
    constexpr cat C2 = decltype(c2)::value;
    run_case(op, descr({{"first", C1}, {"second", C2}}, "container::join, first at capacity, n=" + std::to_string(n1) + "," + std::to_string(n2)),
             true, [&](ctx &x) {
               std::vector<X> a = full_vector<X>(n1, 100), b = full_vector<X>(n2, 500);
               std::vector<int> const want = ids_of(a) + ids_of(b);
               x.arg("first", C1, a);
               x.arg("second", C2, b);
               x.arm();
               std::vector<X> r = fcppt::container::join(pass<C1>(a), pass<C2>(b));
               x.disarm();
               x.result_is(r, want);
               x.after("first", a);
               x.after("second", b);
             });
  };
  for (int n1 : grow_sizes())
    for (int n2 : {1, 2})
    {
      if constexpr (copyable)
        for_cat([&](auto c1) { for_cat([&](auto c2) { join_case(c1, c2, n1, n2); }); });
      else
        join_case(cat_c<cat::rv>{}, cat_c<cat::rv>{}, n1, n2);
    }
  // three arguments, all rvalues: two reallocations in a row
  for (int n1 : grow_sizes())
    run_case(op, descr({{"first", cat::rv}, {"second", cat::rv}, {"third", cat::rv}}, "container::join/3, first at capacity, n=" + std::to_string(n1) + ",1,2"),
             true, [&](ctx &x) {
               std::vector<X> a = full_vector<X>(n1, 100), b = full_vector<X>(1, 500), d = full_vector<X>(2, 700);
               std::vector<int> const want = ids_of(a) + ids_of(b) + ids_of(d);
               x.arg("first", cat::rv, a);
               x.arg("second", cat::rv, b);
               x.arg("third", cat::rv, d);
               x.arm();
               std::vector<X> r = fcppt::container::join(std::move(a), std::move(b), std::move(d));
               x.disarm();
               x.result_is(r, want);
             });

  // ---- algorithms that build a vector<X> element by element (no reserve): two or more X force reallocations
  for (int n : produce_sizes())
  {
    run_case(op, "algorithm::map_optional<vector<X>> producing " + std::to_string(n) + " X from ints", true, [&](ctx &x) {
      std::vector<int> src;
      for (int i = 0; i < n; ++i)
        src.push_back(i);
      std::map<int, std::vector<int>> made; // by source element: the result order follows the elements, not the calls
      x.arm();
      std::vector<X> r = fcppt::algorithm::map_optional<std::vector<X>>(src, [&made](int const i) {
        X v = nest<X>::make(100 + 10 * i);
        made[i] = ids_of(v);
        return fcppt::optional::object<X>{std::move(v)};
      });
      x.disarm();
      std::vector<int> want;
      for (int i : src)
        want = want + made[i];
      x.result_is(r, want);
    });
    run_case(op, descr({{"move_range", cat::rv}}, "algorithm::map_optional<vector<X>> producing " + std::to_string(n) + " X from a move range of X"), true,
             [&](ctx &x) {
               std::vector<X> src = full_vector<X>(n, 100);
               std::vector<int> const want = ids_of(src);
               x.arg("move_range", cat::rv, src);
               x.arm();
               std::vector<X> r = fcppt::algorithm::map_optional<std::vector<X>>(
                   fcppt::container::make_move_range(std::move(src)),
                   [](auto &&e) { return fcppt::optional::object<X>{X(std::forward<decltype(e)>(e))}; });
               x.disarm();
               x.result_is(r, want);
             });
    run_case(op, "algorithm::map_concat<vector<X>> producing " + std::to_string(n) + " X from ints", true, [&](ctx &x) {
      std::vector<int> src;
      for (int i = 0; i < n; ++i)
        src.push_back(i);
      std::map<int, std::vector<int>> made;
      x.arm();
      std::vector<X> r = fcppt::algorithm::map_concat<std::vector<X>>(src, [&made](int const i) {
        std::vector<X> inner;
        inner.reserve(1);
        inner.push_back(nest<X>::make(100 + 10 * i));
        made[i] = ids_of(inner);
        return inner;
      });
      x.disarm();
      std::vector<int> want;
      for (int i : src)
        want = want + made[i];
      x.result_is(r, want);
    });
    run_case(op, descr({{"source", cat::rv}}, "optional::cat<vector<X>> of " + std::to_string(n) + " present optionals"), true, [&](ctx &x) {
      std::vector<fcppt::optional::object<X>> src;
      src.reserve(static_cast<std::size_t>(n + 1));
      for (int i = 0; i < n; ++i)
        src.push_back(fcppt::optional::object<X>{nest<X>::make(100 + 10 * i)});
      src.push_back(fcppt::optional::object<X>{});
      std::vector<int> const want = ids_of(src);
      x.arg("source", cat::rv, src);
      x.arm();
      std::vector<X> r = fcppt::optional::cat<std::vector<X>>(std::move(src));
      x.disarm();
      x.result_is(r, want);
    });
  }
  flush_info();
}
}

namespace c05
{
void register_nested_shards()
{
  vrt::shard("nested/grid", [] { nested_all<x_grid>(); });
  vrt::shard("nested/tree", [] { nested_all<x_tree>(); });
  vrt::shard("nested/optional", [] { nested_all<x_optional>(); });
  vrt::shard("nested/either", [] { nested_all<x_either>(); });
  vrt::shard("nested/variant", [] { nested_all<x_variant>(); });
  vrt::shard("nested/array", [] { nested_all<x_array>(); });
  vrt::shard("nested/tuple", [] { nested_all<x_tuple>(); });
  vrt::shard("nested/record", [] { nested_all<x_record>(); });
  vrt::shard("nested/strong_typedef+recursive+unique_ptr", [] {
    nested_all<x_strong>();
    nested_all<x_recursive>();
    nested_all<x_unique>();
  });
}
}

// C04 (part 4) -- payload family "heap": see C04_rich.hpp
#include "C04_rich.hpp"

void c04_rich_heap_shards() { c04::rich_family_shards<c04::fam_heap>(); }

// C13: instantiations for the 64-bit coordinate types, N = 1,2 (quick-sized domains in both tiers)
#include <C13_impl.hpp>
void c13::reg_wide()
{
  c13::reg_small<long, 1>("single<long,1>", 3, 3, 2);
  c13::reg_pairs<long, 1>("pairs<long,1>", 3, 3, false, 1);
  c13::reg_small<long, 2>("single<long,2>", 2, 2, 2);
  c13::reg_pairs<long, 2>("pairs<long,2>", 2, 2, false, 2);
  c13::reg_small<unsigned long, 1>("single<ulong,1>", 3, 3, 2);
  c13::reg_pairs<unsigned long, 1>("pairs<ulong,1>", 3, 3, false, 1);
  c13::reg_small<unsigned long, 2>("single<ulong,2>", 2, 2, 2);
  c13::reg_pairs<unsigned long, 2>("pairs<ulong,2>", 2, 2, false, 2);
}

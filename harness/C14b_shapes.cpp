// C14b_shapes.cpp (binary C14b) -- products RxK * KxC for the 24 shape triples with R > K
// and the right identity A*I for the 6 shapes with more rows than columns.
#define C14_WITH_TALL 1
#include "C14_shapes.hpp"

namespace c14
{
using namespace shapes;

namespace
{
template <sz R, sz K> void all_c()
{
  product_shape<R, K, 1>();
  product_shape<R, K, 2>();
  product_shape<R, K, 3>();
  product_shape<R, K, 4>();
}
}

void register_b_shapes()
{
  vrt::shard("tall/product/inner1", [] {
    all_c<2, 1>();
    all_c<3, 1>();
    all_c<4, 1>();
  });
  vrt::shard("tall/product/inner2_3", [] {
    all_c<3, 2>();
    all_c<4, 2>();
    all_c<4, 3>();
  });
  vrt::shard("tall/identity", [] {
    identity_shape<2, 1>();
    identity_shape<3, 1>();
    identity_shape<4, 1>();
    identity_shape<3, 2>();
    identity_shape<4, 2>();
    identity_shape<4, 3>();
  });
}
}

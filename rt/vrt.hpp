// vrt.hpp -- runtime shared by all harnesses (header only).
//
// Engine E (exhaustive input enumeration): a harness registers *shards*; every
// shard is a deterministic nest of loops; each evaluated case is announced with
// vrt::begin(fn, args...) (cheap: a counter and a few stores into a page shared
// with the coordinator).  Shards run in forked children.  When a child dies
// (sanitizer abort, signal, watchdog) the coordinator reads the announced case
// from the shared page, records a violation for it and re-forks the shard so
// that it resumes *after* that case.  Replay of a single case = run the shard
// with only that case index enabled.
//
// Nothing here samples: VERIF_SEED only permutes the order in which shards are
// started.
#pragma once
#include <algorithm>
#include <chrono>
#include <cinttypes>
#include <csignal>
#include <cstdarg>
#include <cstdint>
#include <cstdio>
#include <cstdlib>
#include <cstring>
#include <exception>
#include <fcntl.h>
#include <functional>
#include <map>
#include <set>
#include <sstream>
#include <string>
#include <sys/mman.h>
#include <sys/stat.h>
#include <sys/time.h>
#include <sys/wait.h>
#include <typeinfo>
#include <unistd.h>
#include <vector>
#include <cxxabi.h>

namespace vrt
{

// ---------------------------------------------------------------- utilities
inline std::string json_escape(std::string const &s)
{
  std::string r;
  r.reserve(s.size() + 2);
  for (unsigned char c : s)
  {
    switch (c)
    {
    case '"': r += "\\\""; break;
    case '\\': r += "\\\\"; break;
    case '\n': r += "\\n"; break;
    case '\r': r += "\\r"; break;
    case '\t': r += "\\t"; break;
    default:
      if (c < 0x20 || c >= 0x7f)
      {
        char b[8];
        std::snprintf(b, sizeof b, "\\u%04x", c);
        r += b;
      }
      else
        r += static_cast<char>(c);
    }
  }
  return r;
}

inline std::string fmt(char const *f, ...) __attribute__((format(printf, 1, 2)));
inline std::string fmt(char const *f, ...)
{
  char buf[4096];
  va_list ap;
  va_start(ap, f);
  std::vsnprintf(buf, sizeof buf, f, ap);
  va_end(ap);
  return buf;
}

inline double now_s()
{
  return std::chrono::duration<double>(std::chrono::steady_clock::now().time_since_epoch()).count();
}

inline std::string demangle(char const *n)
{
  int st = 0;
  char *d = abi::__cxa_demangle(n, nullptr, nullptr, &st);
  std::string r = (st == 0 && d) ? d : n;
  std::free(d);
  return r;
}

// ---------------------------------------------------------------- shared page
struct shared_page
{
  volatile std::uint64_t index; // index of the case announced last (1-based)
  char fn[128];                 // name of the function / group (copied: the coordinator must be able to read it)
  volatile std::int64_t a[8];
  volatile int na;
  volatile std::uint64_t evaluations;
  volatile std::uint64_t nontrivial;
  volatile int hang;
  volatile int text_valid;
  char text[16384]; // free-text descriptor (strings, histories)
};

struct violation
{
  std::string sig;
  std::string what;
  std::string case_text;
  std::string shard;
  std::uint64_t index = 0;
};

struct config
{
  std::string tier = "quick";
  std::uint64_t seed = 0;
  std::string out = "result.json";
  std::string tmp = "/tmp";
  std::string replay_shard;
  std::uint64_t replay_index = 0;
  std::string replay_text;
  bool replay = false;
  double deadline_s = 600;
  int jobs = 16;
  int hang_s = 60; // seconds without a new announced case before the watchdog calls it a hang (generous: the machine may be loaded)
  std::string only; // run only shards whose name contains this
};

struct shard_def
{
  std::string name;
  std::function<void()> fn;
  int hang_s;
};

struct state
{
  config cfg;
  std::vector<shard_def> shards;
  shared_page *page = nullptr;
  shared_page local_page{};
  std::uint64_t resume_after = 0;
  std::uint64_t only_index = 0; // replay mode
  std::string cur_shard;
  int viol_fd = -1;
  std::vector<violation> violations; // replay mode / in-process
  std::map<std::string, std::uint64_t> viol_count;
  std::vector<std::string> samples;
  std::uint64_t sample_stride = 1;
  std::map<std::string, std::string> info; // free-form key -> json value
  double t0 = 0;
  bool in_child = false;
  bool stopped_early = false;
  bool muted = false; // re-execution of cases before the resume point: run, but do not report again
  std::map<std::string, std::uint64_t> counters;
};

inline state &S()
{
  static state s;
  return s;
}

inline bool thorough() { return S().cfg.tier == "thorough"; }
inline bool quick() { return !thorough(); }
inline std::uint64_t seed() { return S().cfg.seed; }
inline double elapsed() { return now_s() - S().t0; }
// true once the global deadline has passed: loops should stop expanding, the
// shard is then reported as not exhaustive (never as a violation)
inline bool out_of_time()
{
  if (elapsed() > S().cfg.deadline_s)
  {
    S().stopped_early = true;
    return true;
  }
  return false;
}

inline std::string case_text()
{
  shared_page &p = *S().page;
  if (p.text_valid)
    return std::string(p.text);
  std::string r = p.fn[0] ? p.fn : "?";
  r += "(";
  for (int i = 0; i < p.na; ++i)
  {
    if (i)
      r += ", ";
    r += std::to_string(p.a[i]);
  }
  r += ")";
  return r;
}

namespace detail
{
inline char const *last_fn = nullptr;
inline void set_fn(shared_page &p, char const *fn)
{
  if (fn == last_fn)
    return;
  last_fn = fn;
  std::strncpy(p.fn, fn, sizeof(p.fn) - 1);
  p.fn[sizeof(p.fn) - 1] = 0;
}
inline void store_args(shared_page &, int) {}
template <class T, class... R> inline void store_args(shared_page &p, int i, T v, R... r)
{
  p.a[i] = static_cast<std::int64_t>(v);
  store_args(p, i + 1, r...);
}
}

// Announce the next case. Returns false if the case must be skipped (resume
// after a crash, or replay of another index).
template <class... A> inline bool begin(char const *fn, A... args)
{
  static_assert(sizeof...(A) <= 8);
  state &s = S();
  shared_page &p = *s.page;
  std::uint64_t const idx = p.index + 1;
  p.index = idx;
  if (idx <= s.resume_after)
    return false;
  if (s.only_index && idx != s.only_index)
    return false;
  detail::set_fn(p, fn);
  p.na = static_cast<int>(sizeof...(A));
  p.text_valid = 0;
  detail::store_args(p, 0, args...);
  p.evaluations = p.evaluations + 1;
  return true;
}

// Announce a case described by free text (strings, histories, programs).
inline bool begin_text(char const *fn, std::string const &text)
{
  state &s = S();
  shared_page &p = *s.page;
  std::uint64_t const idx = p.index + 1;
  p.index = idx;
  if (idx <= s.resume_after)
    return false;
  if (s.only_index && idx != s.only_index)
    return false;
  detail::set_fn(p, fn);
  p.na = 0;
  std::size_t n = std::min(text.size(), sizeof(p.text) - 1);
  std::memcpy(p.text, text.data(), n);
  p.text[n] = 0;
  p.text_valid = 1;
  p.evaluations = p.evaluations + 1;
  return true;
}

// replace the descriptor of the current case (e.g. add detail) without counting
inline void describe(std::string const &text)
{
  shared_page &p = *S().page;
  std::size_t n = std::min(text.size(), sizeof(p.text) - 1);
  std::memcpy(p.text, text.data(), n);
  p.text[n] = 0;
  p.text_valid = 1;
}

inline void nontrivial(bool b = true)
{
  if (b)
    S().page->nontrivial = S().page->nontrivial + 1;
}
inline void count(std::string const &k, std::uint64_t n = 1) { S().counters[k] += n; }

inline void sample_now()
{
  state &s = S();
  if (s.samples.size() < 6)
    s.samples.push_back(case_text());
}
// keep a handful of cases as written-out samples
inline void maybe_sample()
{
  state &s = S();
  std::uint64_t e = s.page->evaluations;
  if (e == 1 || (e & (e - 1)) == 0) // 1,2,4,8,... : spreads over the whole run
  {
    if (s.samples.size() >= 12)
      s.samples.erase(s.samples.begin() + 1);
    s.samples.push_back(case_text());
  }
}

inline void info(std::string const &k, std::string const &json_value) { S().info[k] = json_value; }

inline void write_violation_line(violation const &v)
{
  state &s = S();
  if (s.viol_fd < 0)
    return;
  std::string line = "{\"sig\":\"" + json_escape(v.sig) + "\",\"what\":\"" + json_escape(v.what) +
                     "\",\"case\":\"" + json_escape(v.case_text) + "\",\"shard\":\"" +
                     json_escape(v.shard) + "\",\"index\":" + std::to_string(v.index) + "}\n";
  ssize_t r = ::write(s.viol_fd, line.data(), line.size());
  (void)r;
}

// Record a violation of the property for the current case.
inline void fail(std::string const &sig, std::string const &what)
{
  state &s = S();
  if (s.muted)
    return;
  std::uint64_t &c = s.viol_count[sig];
  ++c;
  s.counters["viol:" + sig] = c;
  if (c > 3)
    return; // keep the first three per signature, count the rest
  violation v;
  v.sig = sig;
  v.what = what;
  v.case_text = case_text();
  v.shard = s.cur_shard;
  v.index = s.page->index;
  s.violations.push_back(v);
  write_violation_line(v);
}

#define VRT_CHECK(cond, sig, ...)                      \
  do                                                   \
  {                                                    \
    if (!(cond))                                       \
      ::vrt::fail((sig), ::vrt::fmt(__VA_ARGS__));     \
  } while (0)

// Run f; any escaping exception is a violation unless allowed(e) says otherwise.
template <class F> inline bool no_throw(char const *sig, F &&f)
{
  try
  {
    f();
    return true;
  }
  catch (std::exception const &e)
  {
    fail(std::string(sig) + ":exception:" + demangle(typeid(e).name()), e.what());
  }
  catch (...)
  {
    fail(std::string(sig) + ":exception:unknown", "non-std exception");
  }
  return false;
}

inline void shard(std::string name, std::function<void()> fn, int hang_s = 0)
{
  S().shards.push_back(shard_def{std::move(name), std::move(fn), hang_s});
}

// ---------------------------------------------------------------- watchdog
namespace detail
{
inline volatile std::uint64_t wd_last_index = 0;
inline volatile int wd_still = 0;
inline volatile int wd_limit = 10;
inline void on_alarm(int)
{
  shared_page *p = S().page;
  if (!p)
    return;
  if (p->index == wd_last_index)
  {
    wd_still = wd_still + 1;
    if (wd_still >= wd_limit)
    {
      p->hang = 1;
      _exit(98);
    }
  }
  else
  {
    wd_last_index = p->index;
    wd_still = 0;
  }
}
inline void arm_watchdog(int limit_s)
{
  wd_limit = limit_s;
  wd_still = 0;
  struct sigaction sa;
  std::memset(&sa, 0, sizeof sa);
  sa.sa_handler = on_alarm;
  sigaction(SIGALRM, &sa, nullptr);
  itimerval it;
  it.it_interval.tv_sec = 1;
  it.it_interval.tv_usec = 0;
  it.it_value = it.it_interval;
  setitimer(ITIMER_REAL, &it, nullptr);
}

inline std::string read_file(std::string const &path, std::size_t max = 1 << 20)
{
  std::string r;
  FILE *f = std::fopen(path.c_str(), "rb");
  if (!f)
    return r;
  char buf[65536];
  std::size_t n;
  while ((n = std::fread(buf, 1, sizeof buf, f)) > 0 && r.size() < max)
    r.append(buf, n);
  std::fclose(f);
  return r;
}

// classify a dead child from its stderr
inline std::string crash_kind(std::string const &err, int status, bool hang)
{
  if (hang)
    return "hang";
  std::size_t p;
  if ((p = err.find("VRT-EXCEPTION: ")) != std::string::npos)
  {
    std::size_t b = p + std::strlen("VRT-EXCEPTION: ");
    std::size_t e = err.find_first_of(":\n", b);
    return "exception:" + err.substr(b, e - b);
  }
  if ((p = err.find("ERROR: AddressSanitizer: ")) != std::string::npos)
  {
    std::size_t b = p + std::strlen("ERROR: AddressSanitizer: ");
    std::size_t e = err.find_first_of(" \n", b);
    return "asan:" + err.substr(b, e - b);
  }
  if ((p = err.find("runtime error: ")) != std::string::npos)
  {
    std::size_t b = p + std::strlen("runtime error: ");
    std::size_t e = err.find('\n', b);
    std::string m = err.substr(b, e - b);
    // drop the numbers so that the signature is stable across inputs
    std::string r;
    for (char c : m)
      if (!(c >= '0' && c <= '9') && c != '-')
        r += c;
    if (r.size() > 60)
      r.resize(60);
    return "ubsan:" + r;
  }
  if (err.find("VRT-DEADLOCK") != std::string::npos)
    return "deadlock";
  if (err.find("VRT-UNSUPPORTED-SYNC") != std::string::npos)
    return "unsupported_sync_primitive";
  if (err.find("Assertion") != std::string::npos && err.find("failed") != std::string::npos)
    return "assertion";
  if (err.find("terminate called") != std::string::npos)
    return "terminate";
  if (WIFSIGNALED(status))
    return std::string("signal:") + std::to_string(WTERMSIG(status));
  return "exit:" + std::to_string(WIFEXITED(status) ? WEXITSTATUS(status) : -1);
}
}

// ---------------------------------------------------------------- results
struct shard_result
{
  std::string name;
  std::uint64_t evaluations = 0, nontrivial = 0;
  bool complete = false;
  int restarts = 0;
  double wall = 0;
  std::vector<std::string> samples;
  std::map<std::string, std::uint64_t> counters;
  std::map<std::string, std::string> info;
};

inline std::string shard_result_json(shard_result const &r)
{
  std::string o = "{\"name\":\"" + json_escape(r.name) + "\",\"evaluations\":" + std::to_string(r.evaluations) +
                  ",\"nontrivial\":" + std::to_string(r.nontrivial) + ",\"complete\":" +
                  (r.complete ? "true" : "false") + ",\"restarts\":" + std::to_string(r.restarts) +
                  ",\"wall_s\":" + fmt("%.2f", r.wall) + ",\"samples\":[";
  for (std::size_t i = 0; i < r.samples.size(); ++i)
    o += (i ? ",\"" : "\"") + json_escape(r.samples[i]) + "\"";
  o += "],\"counters\":{";
  bool first = true;
  for (auto const &kv : r.counters)
  {
    o += (first ? "\"" : ",\"") + json_escape(kv.first) + "\":" + std::to_string(kv.second);
    first = false;
  }
  o += "},\"info\":{";
  first = true;
  for (auto const &kv : r.info)
  {
    o += (first ? "\"" : ",\"") + json_escape(kv.first) + "\":" + kv.second;
    first = false;
  }
  o += "}}";
  return o;
}

// child side: run one shard, write its result file, _exit
inline void child_run(shard_def const &sd, std::string const &resfile, std::string const &violfile,
                      std::string const &errfile, std::uint64_t resume_after)
{
  state &s = S();
  s.in_child = true;
  int efd = ::open(errfile.c_str(), O_WRONLY | O_CREAT | O_TRUNC, 0644);
  if (efd >= 0)
  {
    ::dup2(efd, 2);
    ::close(efd);
  }
  s.viol_fd = ::open(violfile.c_str(), O_WRONLY | O_CREAT | O_APPEND, 0644);
  s.cur_shard = sd.name;
  s.resume_after = resume_after;
  s.page->index = 0;
  detail::arm_watchdog(sd.hang_s ? sd.hang_s : s.cfg.hang_s);
  double t = now_s();
  bool ok = true;
  try
  {
    sd.fn();
  }
  catch (std::exception const &e)
  {
    fail("harness:uncaught:" + demangle(typeid(e).name()), e.what());
    ok = false;
  }
  catch (...)
  {
    fail("harness:uncaught:unknown", "");
    ok = false;
  }
  shard_result r;
  r.name = sd.name;
  r.evaluations = s.page->evaluations;
  r.nontrivial = s.page->nontrivial;
  r.complete = ok && !s.stopped_early;
  r.wall = now_s() - t;
  r.samples = s.samples;
  r.counters = s.counters;
  r.info = s.info;
  std::string j = shard_result_json(r);
  FILE *f = std::fopen(resfile.c_str(), "w");
  if (f)
  {
    std::fputs(j.c_str(), f);
    std::fclose(f);
  }
  std::fflush(nullptr);
  _exit(0);
}

inline void parse_args(int argc, char **argv)
{
  config &c = S().cfg;
  for (int i = 1; i < argc; ++i)
  {
    std::string a = argv[i];
    auto next = [&]() -> std::string { return (i + 1 < argc) ? argv[++i] : ""; };
    if (a == "--tier")
      c.tier = next();
    else if (a == "--seed")
      c.seed = std::strtoull(next().c_str(), nullptr, 10);
    else if (a == "--out")
      c.out = next();
    else if (a == "--tmp")
      c.tmp = next();
    else if (a == "--deadline")
      c.deadline_s = std::atof(next().c_str());
    else if (a == "--jobs")
      c.jobs = std::atoi(next().c_str());
    else if (a == "--only")
      c.only = next();
    else if (a == "--replay-shard")
    {
      c.replay_shard = next();
      c.replay = true;
    }
    else if (a == "--replay-index")
      c.replay_index = std::strtoull(next().c_str(), nullptr, 10);
    else if (a == "--replay-text")
      c.replay_text = next();
  }
}

inline std::string violations_json(std::vector<violation> const &vs)
{
  std::string o = "[";
  for (std::size_t i = 0; i < vs.size(); ++i)
  {
    violation const &v = vs[i];
    o += (i ? ",{" : "{");
    o += "\"sig\":\"" + json_escape(v.sig) + "\",\"what\":\"" + json_escape(v.what) + "\",\"case\":\"" +
         json_escape(v.case_text) + "\",\"shard\":\"" + json_escape(v.shard) +
         "\",\"index\":" + std::to_string(v.index) + "}";
  }
  return o + "]";
}

// The coordinator. Returns the process exit code (0: ran; violations are in
// the result file and are judged by the python driver against known findings).
inline int run(int argc, char **argv)
{
  state &s = S();
  parse_args(argc, argv);
  s.t0 = now_s();
  config const &c = s.cfg;

  if (c.replay)
  {
    // in-process, no fork: the debugger-friendly path
    s.page = &s.local_page;
    s.only_index = c.replay_index;
    s.cur_shard = c.replay_shard;
    bool found = false;
    for (auto const &sd : s.shards)
      if (sd.name == c.replay_shard)
      {
        found = true;
        sd.fn();
      }
    if (!found)
    {
      std::fprintf(stderr, "replay: no shard named %s\n", c.replay_shard.c_str());
      return 2;
    }
    for (auto const &v : s.violations)
      std::printf("REPLAY-VIOLATION sig=%s what=%s case=%s\n", v.sig.c_str(), v.what.c_str(),
                  v.case_text.c_str());
    std::printf("replay: evaluations=%" PRIu64 " violations=%zu\n", s.page->evaluations,
                s.violations.size());
    return s.violations.empty() ? 0 : 1;
  }

  std::vector<std::size_t> order;
  for (std::size_t i = 0; i < s.shards.size(); ++i)
    if (c.only.empty() || s.shards[i].name.find(c.only) != std::string::npos)
      order.push_back(i);
  // VERIF_SEED permutes the start order only
  if (c.seed)
  {
    std::uint64_t x = c.seed * 6364136223846793005ULL + 1442695040888963407ULL;
    for (std::size_t i = order.size(); i > 1; --i)
    {
      x = x * 6364136223846793005ULL + 1442695040888963407ULL;
      std::swap(order[i - 1], order[(x >> 33) % i]);
    }
  }

  struct slot
  {
    pid_t pid = 0;
    std::size_t shard = 0;
    shared_page *page = nullptr;
    int restarts = 0;
    std::uint64_t resume_after = 0;
    std::uint64_t evals_before = 0, nontriv_before = 0;
    double t_start = 0;
  };
  int const jobs = std::max(1, c.jobs);
  std::vector<slot> slots(static_cast<std::size_t>(jobs));
  for (auto &sl : slots)
  {
    void *m = mmap(nullptr, sizeof(shared_page), PROT_READ | PROT_WRITE, MAP_SHARED | MAP_ANONYMOUS, -1, 0);
    if (m == MAP_FAILED)
    {
      std::perror("mmap");
      return 2;
    }
    sl.page = static_cast<shared_page *>(m);
  }

  std::vector<shard_result> results(s.shards.size());
  std::vector<violation> all_viol;
  std::map<std::string, std::uint64_t> crash_sig_count;
  std::size_t next = 0;
  int running = 0;
  auto files = [&](std::size_t sh, char const *ext) { return c.tmp + "/shard" + std::to_string(sh) + "." + ext; };

  auto spawn = [&](slot &sl) {
    std::memset(sl.page, 0, sizeof(shared_page));
    std::fflush(nullptr);
    pid_t p = fork();
    if (p == 0)
    {
      s.page = sl.page;
      child_run(s.shards[sl.shard], files(sl.shard, "res"), files(sl.shard, "viol"), files(sl.shard, "err"),
                sl.resume_after);
      _exit(0);
    }
    sl.pid = p;
    ++running;
  };

  auto collect_viol_file = [&](std::size_t sh) {
    std::string v = detail::read_file(files(sh, "viol"), 8u << 20);
    return v;
  };
  std::string raw_viol_lines;

  while (next < order.size() || running > 0)
  {
    for (auto &sl : slots)
    {
      if (sl.pid == 0 && next < order.size())
      {
        sl.shard = order[next++];
        sl.restarts = 0;
        sl.resume_after = 0;
        sl.evals_before = sl.nontriv_before = 0;
        sl.t_start = now_s();
        ::unlink(files(sl.shard, "viol").c_str());
        ::unlink(files(sl.shard, "res").c_str());
        spawn(sl);
      }
    }
    int status = 0;
    pid_t p = waitpid(-1, &status, WNOHANG);
    if (p <= 0)
    {
      usleep(2000);
      // hard kill for children that overrun the deadline by a wide margin
      if (elapsed() > c.deadline_s + 60)
        for (auto &sl : slots)
          if (sl.pid)
            kill(sl.pid, SIGKILL);
      continue;
    }
    for (auto &sl : slots)
    {
      if (sl.pid != p)
        continue;
      --running;
      sl.pid = 0;
      shard_def const &sd = s.shards[sl.shard];
      shard_result &res = results[sl.shard];
      res.name = sd.name;
      bool clean = WIFEXITED(status) && WEXITSTATUS(status) == 0;
      if (clean)
      {
        // parse the few fields we need back from the child's own json: cheaper to
        // keep the raw json and let python merge; we only add the pre-crash counters
        std::string j = detail::read_file(files(sl.shard, "res"));
        res.info["raw"] = j.empty() ? "null" : j;
        res.evaluations = sl.evals_before;
        res.nontrivial = sl.nontriv_before;
        res.restarts = sl.restarts;
        res.complete = !j.empty();
        res.wall = now_s() - sl.t_start;
      }
      else
      {
        bool killed_late = WIFSIGNALED(status) && WTERMSIG(status) == SIGKILL && elapsed() > c.deadline_s;
        std::string err = detail::read_file(files(sl.shard, "err"));
        if (killed_late)
        {
          res.evaluations = sl.evals_before + sl.page->evaluations;
          res.nontrivial = sl.nontriv_before + sl.page->nontrivial;
          res.complete = false;
          res.restarts = sl.restarts;
          res.wall = now_s() - sl.t_start;
          res.info["raw"] = "null";
          res.info["killed_at_deadline"] = "true";
        }
        else
        {
          std::string kind = detail::crash_kind(err, status, sl.page->hang != 0);
          violation v;
          // reconstruct the announced case from the shared page
          shared_page *save = s.page;
          s.page = sl.page;
          v.case_text = case_text();
          std::string fn = sl.page->fn[0] ? sl.page->fn : "?";
          s.page = save;
          // a primitive the scheduler cannot model is a limitation of the harness, not a verdict
          v.sig = (kind == "unsupported_sync_primitive" ? "harness:" : "crash:") + fn + ":" + kind;
          std::size_t cut = err.size() > 3000 ? 3000 : err.size();
          v.what = err.substr(0, cut);
          v.shard = sd.name;
          v.index = sl.page->index;
          std::uint64_t &cnt = crash_sig_count[v.sig];
          ++cnt;
          if (cnt <= 3)
            all_viol.push_back(v);
          sl.evals_before += sl.page->evaluations;
          sl.nontriv_before += sl.page->nontrivial;
          sl.resume_after = sl.page->index;
          ++sl.restarts;
          if (sl.restarts <= 40 && sl.page->index > 0 && elapsed() < c.deadline_s)
          {
            spawn(sl);
          }
          else
          {
            res.evaluations = sl.evals_before;
            res.nontrivial = sl.nontriv_before;
            res.complete = false;
            res.restarts = sl.restarts;
            res.wall = now_s() - sl.t_start;
            res.info["raw"] = "null";
            res.info["gave_up_after_restarts"] = "true";
          }
        }
      }
      if (sl.pid == 0)
        raw_viol_lines += collect_viol_file(sl.shard);
    }
  }

  // result file
  std::string o = "{\"tier\":\"" + c.tier + "\",\"seed\":" + std::to_string(c.seed) + ",\"wall_s\":" +
                  fmt("%.2f", elapsed()) + ",\"shards\":[";
  bool first = true;
  for (std::size_t i : order)
  {
    o += (first ? "" : ",") + shard_result_json(results[i]);
    first = false;
  }
  o += "],\"crash_violations\":" + violations_json(all_viol) + ",\"crash_counts\":{";
  first = true;
  for (auto const &kv : crash_sig_count)
  {
    o += (first ? "\"" : ",\"") + json_escape(kv.first) + "\":" + std::to_string(kv.second);
    first = false;
  }
  o += "},\"violation_lines\":\"" + json_escape(raw_viol_lines) + "\"}";
  FILE *f = std::fopen(c.out.c_str(), "w");
  if (!f)
  {
    std::perror("open out");
    return 2;
  }
  std::fputs(o.c_str(), f);
  std::fclose(f);
  return 0;
}

} // namespace vrt

// hist.hpp -- engine H: explicit-state breadth-first search over operation
// histories of a *real* object, with a reference model stepped in lock step.
//
// A state is the shortest history that reaches it (objects under test are mostly
// not copyable); it is replayed on a fresh world for every outgoing transition.
// Every reached state is canonicalised (Sys::canon) and deduplicated by a 128-bit
// hash of the canonical string.  Levels are explored by forked workers; a worker
// that dies (sanitizer abort, signal, watchdog) is attributed to the transition it
// had announced, that transition is recorded as a violation and not expanded, and
// the worker is restarted after it.
//
// Sys must provide
//   Sys();                               fresh world (real objects + model)
//   std::vector<op> enabled() const;     alphabet enabled in the current state (inside the caps)
//   void apply(op const &);              run the op on the real object and on the model,
//                                        compare results (vrt::fail on mismatch)
//   void check();                        invariants + comparison of every observer
//   std::string canon() const;           canonical state (justification: see each harness)
//   static std::string show(op const &); human readable
#pragma once
#include <vrt.hpp>

#include <cerrno>
#include <unordered_set>

namespace vrt
{
namespace hist
{
struct op
{
  std::int32_t k = 0, a = 0, b = 0, c = 0, d = 0;
  bool operator==(op const &o) const { return k == o.k && a == o.a && b == o.b && c == o.c && d == o.d; }
};

struct h128
{
  std::uint64_t a, b;
  bool operator==(h128 const &o) const { return a == o.a && b == o.b; }
};
struct h128_hash
{
  std::size_t operator()(h128 const &h) const { return static_cast<std::size_t>(h.a ^ (h.b * 0x9e3779b97f4a7c15ULL)); }
};

inline h128 hash_str(std::string const &s)
{
  std::uint64_t h1 = 1469598103934665603ULL, h2 = 0x9ae16a3b2f90404fULL;
  for (unsigned char c : s)
  {
    h1 = (h1 ^ c) * 1099511628211ULL;
    h2 = (h2 + c) * 0xff51afd7ed558ccdULL;
    h2 ^= h2 >> 29;
  }
  h1 ^= s.size();
  return h128{h1, h2};
}

inline std::string encode(std::vector<op> const &h)
{
  std::string r;
  for (op const &o : h)
  {
    if (!r.empty())
      r += ' ';
    r += std::to_string(o.k) + "." + std::to_string(o.a) + "." + std::to_string(o.b) + "." + std::to_string(o.c) + "." +
         std::to_string(o.d);
  }
  return r;
}

inline std::vector<op> decode(std::string const &text)
{
  std::vector<op> r;
  std::string t = text.substr(0, text.find(" | "));
  std::istringstream is(t);
  std::string tok;
  while (is >> tok)
  {
    op o;
    if (std::sscanf(tok.c_str(), "%d.%d.%d.%d.%d", &o.k, &o.a, &o.b, &o.c, &o.d) == 5)
      r.push_back(o);
  }
  return r;
}

template <class Sys> std::string describe(std::vector<op> const &h)
{
  std::string r = encode(h) + " | ";
  for (std::size_t i = 0; i < h.size(); ++i)
    r += (i ? "; " : "") + Sys::show(h[i]);
  return r;
}

struct node
{
  std::uint32_t parent;
  op o;
  h128 key;
};

struct limits
{
  int max_depth = 64;
  std::uint64_t max_states = 4000000;
  int workers = 16;
  int hang_s = 90;
};

struct rec
{
  std::uint32_t parent;
  std::uint32_t opi;
  op o;
  h128 key;
  std::uint32_t bad; // transition raised a violation: do not expand
};

template <class Sys> struct explorer
{
  std::string name;
  limits lim;
  std::vector<node> nodes;
  std::unordered_set<h128, h128_hash> seen;
  std::uint64_t transitions = 0;
  std::uint64_t bad_transitions = 0;
  int depth_done = 0;
  bool fixpoint = false;
  std::vector<std::uint64_t> level_sizes;

  explicit explorer(std::string n, limits l = limits()) : name(std::move(n)), lim(l) {}

  std::vector<op> history(std::uint32_t idx) const
  {
    std::vector<op> h;
    while (idx != 0)
    {
      h.push_back(nodes[idx].o);
      idx = nodes[idx].parent;
    }
    std::reverse(h.begin(), h.end());
    return h;
  }

  // plain replay entry point (no explorer): returns number of violations raised
  static std::size_t replay(std::vector<op> const &h)
  {
    state &s = S();
    std::size_t before = s.violations.size();
    std::uint64_t cnt_before = 0;
    for (auto const &kv : s.viol_count)
      cnt_before += kv.second;
    vrt::begin_text("replay", describe<Sys>(h));
    {
      Sys w;
      for (op const &o : h)
        w.apply(o);
      w.check();
      std::printf("replay: %zu ops, canon=%s\n", h.size(), w.canon().c_str());
    }
    (void)before;
    std::uint64_t cnt_after = 0;
    for (auto const &kv : s.viol_count)
      cnt_after += kv.second;
    return static_cast<std::size_t>(cnt_after - cnt_before);
  }

  static std::uint64_t fail_total()
  {
    std::uint64_t c = 0;
    for (auto const &kv : S().viol_count)
      c += kv.second;
    return c;
  }

  // worker: expand frontier states [lo,hi) with index % W == w
  void worker(std::uint32_t lo, std::uint32_t hi, int w, int W, std::string const &outfile, std::uint64_t resume_after)
  {
    state &s = S();
    s.resume_after = resume_after;
    s.page->index = 0;
    int fd = ::open(outfile.c_str(), O_WRONLY | O_CREAT | O_APPEND, 0644);
    std::unordered_set<h128, h128_hash> local;
    std::vector<rec> buf;
    auto flush = [&] {
      if (!buf.empty())
      {
        ssize_t r = ::write(fd, buf.data(), buf.size() * sizeof(rec));
        (void)r;
        buf.clear();
      }
    };
    for (std::uint32_t i = lo; i < hi; ++i)
    {
      if (static_cast<int>(i % static_cast<std::uint32_t>(W)) != w)
        continue;
      if (vrt::out_of_time())
        break;
      std::vector<op> h = history(i);
      std::vector<op> ops;
      {
        // determinism self-check: replaying the recorded history must reproduce the recorded state
        bool const announced = vrt::begin_text("replay-prefix", describe<Sys>(h));
        if (!announced && s.page->index == s.resume_after && s.resume_after != 0)
          continue; // the previous incarnation of this worker died while replaying this prefix
        Sys w0;
        for (op const &o : h)
          w0.apply(o);
        h128 k = hash_str(w0.canon());
        if (!(k == nodes[i].key))
          vrt::fail("harness:replay_divergence", "canonical state differs when its history is replayed");
        ops = w0.enabled();
      }
      std::uint32_t opi = 0;
      for (op const &o : ops)
      {
        std::uint32_t const this_opi = opi++;
        std::vector<op> h2 = h;
        h2.push_back(o);
        if (!vrt::begin_text(name.c_str(), describe<Sys>(h2)))
          continue;
        std::uint64_t f1 = 0;
        std::string cn;
        {
          Sys wld;
          for (op const &p : h)
            wld.apply(p);
          f1 = fail_total();
          wld.apply(o);
          wld.check();
          cn = wld.canon();
        } // the world's destructor may report (leaks, double frees)
        bool const bad = fail_total() != f1;
        h128 const k = hash_str(cn);
        vrt::nontrivial(!(k == nodes[i].key)); // the op changed the canonical state
        if (bad || (seen.find(k) == seen.end() && local.insert(k).second))
        {
          buf.push_back(rec{i, this_opi, o, k, bad ? 1u : 0u});
          if (buf.size() >= 256)
            flush();
        }
      }
    }
    flush();
    ::close(fd);
  }

  void run()
  {
    state &s = S();
    config const &c = s.cfg;
    if (c.replay)
    {
      if (!c.replay_text.empty())
      {
        std::size_t n = replay(decode(c.replay_text));
        std::printf("replay %s: %zu violation(s)\n", name.c_str(), n);
      }
      return;
    }
    // root
    {
      vrt::begin_text(name.c_str(), "<initial state>");
      Sys w0;
      w0.check();
      h128 k = hash_str(w0.canon());
      nodes.push_back(node{0, op{}, k});
      seen.insert(k);
    }
    std::uint32_t lo = 0, hi = 1;
    int const W = std::max(1, lim.workers);
    std::vector<shared_page *> pages;
    for (int w = 0; w < W; ++w)
      pages.push_back(static_cast<shared_page *>(
          mmap(nullptr, sizeof(shared_page), PROT_READ | PROT_WRITE, MAP_SHARED | MAP_ANONYMOUS, -1, 0)));
    std::uint64_t evals = 0, nontriv = 0;
    std::map<std::string, std::uint64_t> crash_counts;
    level_sizes.push_back(1);
    bool complete = true;
    for (int depth = 1; depth <= lim.max_depth; ++depth)
    {
      if (lo == hi)
      {
        fixpoint = true;
        break;
      }
      if (vrt::out_of_time() || nodes.size() > lim.max_states)
      {
        complete = false;
        break;
      }
      struct wslot
      {
        pid_t pid = 0;
        int restarts = 0;
        bool done = false;
      };
      std::vector<wslot> ws(static_cast<std::size_t>(W));
      auto outfile = [&](int w) { return c.tmp + "/hist_" + name + "_w" + std::to_string(w) + ".out"; };
      auto errfile = [&](int w) { return c.tmp + "/hist_" + name + "_w" + std::to_string(w) + ".err"; };
      auto spawn = [&](int w, std::uint64_t resume_after) {
        std::fflush(nullptr);
        pid_t p = fork();
        if (p == 0)
        {
          s.page = pages[static_cast<std::size_t>(w)];
          std::memset(s.page, 0, sizeof(shared_page));
          int efd = ::open(errfile(w).c_str(), O_WRONLY | O_CREAT | O_TRUNC, 0644);
          if (efd >= 0)
          {
            ::dup2(efd, 2);
            ::close(efd);
          }
          detail::last_fn = nullptr;
          detail::arm_watchdog(lim.hang_s);
          try
          {
            worker(lo, hi, w, W, outfile(w), resume_after);
          }
          catch (std::exception const &e)
          {
            // an exception escaping the code under test: die like a crash so that the parent
            // attributes it to the announced transition and restarts this worker after it
            std::fprintf(stderr, "VRT-EXCEPTION: %s: %s\n", demangle(typeid(e).name()).c_str(), e.what());
            std::fflush(nullptr);
            _exit(95);
          }
          catch (...)
          {
            std::fprintf(stderr, "VRT-EXCEPTION: unknown\n");
            std::fflush(nullptr);
            _exit(95);
          }
          // hand the per-signature counters of this worker back through the violation file is
          // not needed: vrt::fail already appended the first three of each signature
          _exit(s.stopped_early ? 7 : 0);
        }
        ws[static_cast<std::size_t>(w)].pid = p;
      };
      for (int w = 0; w < W; ++w)
      {
        ::unlink(outfile(w).c_str());
        spawn(w, 0);
      }
      int running = W;
      bool level_complete = true;
      while (running > 0)
      {
        int status = 0;
        pid_t p = waitpid(-1, &status, 0);
        if (p < 0 && errno == EINTR)
          continue; // the watchdog timer of this process interrupts the wait once per second
        if (p <= 0)
        {
          vrt::fail("harness:waitpid", "waitpid failed while workers were running");
          level_complete = false;
          break;
        }
        for (int w = 0; w < W; ++w)
        {
          wslot &sl = ws[static_cast<std::size_t>(w)];
          if (sl.pid != p)
            continue;
          shared_page *pg = pages[static_cast<std::size_t>(w)];
          evals += pg->evaluations;
          nontriv += pg->nontrivial;
          if (WIFEXITED(status) && (WEXITSTATUS(status) == 0 || WEXITSTATUS(status) == 7))
          {
            if (WEXITSTATUS(status) == 7)
              level_complete = false;
            sl.pid = 0;
            --running;
          }
          else
          {
            std::string err = detail::read_file(errfile(w));
            std::string kind = detail::crash_kind(err, status, pg->hang != 0);
            violation v;
            shared_page *save = s.page;
            s.page = pg;
            v.case_text = case_text();
            s.page = save;
            std::string fn = pg->fn[0] ? pg->fn : "?";
            // signature: crash kind + the *last operation* of the announced history
            std::string lastop;
            {
              std::string ct = v.case_text;
              std::size_t bar = ct.find(" | ");
              std::string pretty = bar == std::string::npos ? ct : ct.substr(bar + 3);
              std::size_t semi = pretty.rfind("; ");
              lastop = semi == std::string::npos ? pretty : pretty.substr(semi + 2);
              std::size_t par = lastop.find('(');
              if (par != std::string::npos)
                lastop = lastop.substr(0, par);
            }
            v.sig = (fn == "replay-prefix" ? "harness:crash_in_prefix_replay:" : "crash:") + fn + ":" + lastop + ":" + kind;
            v.what = err.substr(0, std::min<std::size_t>(err.size(), 3000));
            v.shard = s.cur_shard;
            v.index = 0;
            std::uint64_t &cnt = crash_counts[v.sig];
            ++cnt;
            s.counters["viol:" + v.sig] = cnt;
            if (cnt <= 3)
              write_violation_line(v);
            ++bad_transitions;
            ++sl.restarts;
            if (sl.restarts > 200 || pg->index == 0)
            {
              level_complete = false;
              sl.pid = 0;
              --running;
            }
            else
              spawn(w, pg->index);
          }
        }
      }
      // merge worker outputs deterministically
      std::vector<rec> recs;
      for (int w = 0; w < W; ++w)
      {
        std::string data = detail::read_file(outfile(w), std::size_t(1) << 34);
        std::size_t n = data.size() / sizeof(rec);
        std::size_t old = recs.size();
        recs.resize(old + n);
        if (n)
          std::memcpy(recs.data() + old, data.data(), n * sizeof(rec));
        ::unlink(outfile(w).c_str());
      }
      std::sort(recs.begin(), recs.end(), [](rec const &x, rec const &y) {
        return x.parent != y.parent ? x.parent < y.parent : x.opi < y.opi;
      });
      if (std::getenv("VRT_DEBUG"))
        std::fprintf(stderr, "[hist %s] depth %d: expanded [%u,%u) recs=%zu evals=%llu complete=%d\n", name.c_str(), depth, lo, hi,
                     recs.size(), static_cast<unsigned long long>(evals), level_complete ? 1 : 0);
      std::uint32_t const new_lo = static_cast<std::uint32_t>(nodes.size());
      for (rec const &r : recs)
      {
        if (r.bad)
        {
          ++bad_transitions;
          continue; // the object may be corrupt: do not expand
        }
        if (seen.insert(r.key).second)
          nodes.push_back(node{r.parent, r.o, r.key});
      }
      if (!level_complete)
      {
        complete = false;
        // keep what was found but do not claim the level
        break;
      }
      depth_done = depth;
      lo = new_lo;
      hi = static_cast<std::uint32_t>(nodes.size());
      level_sizes.push_back(hi - lo);
      if (lo == hi)
      {
        fixpoint = true;
        break;
      }
    }
    transitions = evals;
    if (!complete || !fixpoint)
      s.stopped_early = s.stopped_early || !complete;
    // report
    s.page->evaluations = s.page->evaluations + evals;
    s.page->nontrivial = s.page->nontrivial + nontriv;
    vrt::count("states", nodes.size());
    vrt::count("transitions", evals);
    vrt::count("traces_validated_against_impl", evals);
    vrt::count("bad_transitions_not_expanded", bad_transitions);
    std::string ls = "[";
    for (std::size_t i = 0; i < level_sizes.size(); ++i)
      ls += (i ? "," : "") + std::to_string(level_sizes[i]);
    ls += "]";
    vrt::info("hist:" + name,
              "{\"states\":" + std::to_string(nodes.size()) + ",\"transitions\":" + std::to_string(evals) +
                  ",\"depth_completed\":" + std::to_string(depth_done) + ",\"fixpoint\":" + (fixpoint ? "true" : "false") +
                  ",\"new_states_per_level\":" + ls + "}");
    // samples: a few histories spread over the state list
    for (std::size_t i = 1; i < nodes.size(); i += std::max<std::size_t>(1, nodes.size() / 5))
      s.samples.push_back(describe<Sys>(history(static_cast<std::uint32_t>(i))));
    if (nodes.size() > 1)
      s.samples.push_back(describe<Sys>(history(static_cast<std::uint32_t>(nodes.size() - 1))));
  }
};

} // namespace hist
} // namespace vrt

// sched.hpp -- engine S: preemption-bounded exploration of all schedules of a small
// multi-threaded program over hooked synchronisation points, with a happens-before race
// detector.  See sched.cpp for the mechanism (TSan-ABI hooks + objcopy-redirected mutexes).
#pragma once
#include <cstdint>
#include <functional>
#include <string>
#include <vector>

namespace vsched
{
constexpr int max_threads = 4; // logical threads 1..max_threads; 0 is the coordinating thread

struct choice
{
  std::uint8_t n_enabled;   // number of enabled threads at this branching point (>= 2)
  std::uint8_t cur_enabled; // the running thread could have continued (switching away = preemption)
  std::uint8_t pick;        // index into the canonical enabled list (0 = default)
};

struct race_report
{
  std::string what; // "write/write", "read/write", "use-after-free"
  std::uintptr_t addr = 0;
  int tid_a = 0, tid_b = 0;
  std::string where_a, where_b;
};

struct exec_result
{
  std::vector<choice> choices; // one entry per branching point
  std::uint64_t points = 0;    // visible operations executed (all threads)
  std::uint64_t switches = 0;  // context switches
  int preemptions = 0;
  bool diverged = false;       // replay of the prefix did not see the recorded branching structure
  std::vector<race_report> races;
  std::uint64_t accesses = 0;  // instrumented plain accesses checked
  std::uint64_t stream_hash = 0; // hash of the (thread, op kind) stream: determinism self-test
  std::vector<std::string> notes; // non-seq_cst atomics seen etc.
};

// Run one execution: `threads` are started as logical threads 1..n under the scheduler; the
// first prefix.size() branching points take the recorded pick, later ones the default (0).
// Must be called from the coordinating (main) thread.  Setup/teardown of the world is done by
// the caller outside run(); instrumented accesses made by the caller are attributed to
// thread 0 and ordered before/after all logical threads.
exec_result run(std::vector<std::function<void()>> const &threads, std::vector<choice> const &prefix);

// the global step counter (number of visible operations executed so far in this execution);
// logical threads use it to time-stamp call/return of their operations
std::uint64_t now();
int current_thread();

// forget all shadow state (call before setting up a new world)
void reset_shadow();

// Depth-first enumeration of all schedules with at most `bound` preemptions.
// on_execution is called after every complete execution and returns false to prune below it.
struct explore_stats
{
  std::uint64_t executions = 0, points = 0, branching_points = 0, max_points = 0;
  std::uint64_t by_preemptions[8] = {0, 0, 0, 0, 0, 0, 0, 0};
};
void explore(int bound, std::function<exec_result(std::vector<choice> const &)> const &execute,
             std::function<bool(exec_result const &, std::vector<choice> const &)> const &on_execution, explore_stats &stats);

std::string show(std::vector<choice> const &);
std::vector<choice> parse_choices(std::string const &);
}

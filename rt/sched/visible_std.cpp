// Engine S: out-of-line, non-template pieces of libstdc++ that the code under test calls and that touch memory
// shared between threads.  libstdc++.so is not instrumented, so accesses made inside it are invisible to the
// race detector in rt/sched/sched.cpp (exactly as they are to a real ThreadSanitizer run without an
// instrumented libstdc++).  This file is compiled with the same instrumentation as the library under test and
// linked into the harness executable, where its definitions take precedence over the shared library's.
//
// std::list: the link operations (std::__detail::_List_node_base::_M_hook and friends) live in libstdc++'s
// list.cc.  fcppt::container::tree keeps its children in a std::list, so every push_back of a log context node
// writes list links there.  The functions below do what the originals do.
#include <list>
#include <utility>

namespace std
{
_GLIBCXX_BEGIN_NAMESPACE_VERSION
namespace __detail
{
void _List_node_base::swap(_List_node_base &__x, _List_node_base &__y) _GLIBCXX_USE_NOEXCEPT
{
  if (__x._M_next != &__x)
  {
    if (__y._M_next != &__y)
    {
      // both non-empty
      std::swap(__x._M_next, __y._M_next);
      std::swap(__x._M_prev, __y._M_prev);
      __x._M_next->_M_prev = __x._M_prev->_M_next = &__x;
      __y._M_next->_M_prev = __y._M_prev->_M_next = &__y;
    }
    else
    {
      // x non-empty, y empty
      __y._M_next = __x._M_next;
      __y._M_prev = __x._M_prev;
      __y._M_next->_M_prev = __y._M_prev->_M_next = &__y;
      __x._M_next = __x._M_prev = &__x;
    }
  }
  else if (__y._M_next != &__y)
  {
    // x empty, y non-empty
    __x._M_next = __y._M_next;
    __x._M_prev = __y._M_prev;
    __x._M_next->_M_prev = __x._M_prev->_M_next = &__x;
    __y._M_next = __y._M_prev = &__y;
  }
}

void _List_node_base::_M_transfer(_List_node_base *const __first, _List_node_base *const __last) _GLIBCXX_USE_NOEXCEPT
{
  if (this != __last)
  {
    // remove [first, last) from its old position
    __last->_M_prev->_M_next = this;
    __first->_M_prev->_M_next = __last;
    this->_M_prev->_M_next = __first;
    // splice [first, last) into its new position
    _List_node_base *const __tmp = this->_M_prev;
    this->_M_prev = __last->_M_prev;
    __last->_M_prev = __first->_M_prev;
    __first->_M_prev = __tmp;
  }
}

void _List_node_base::_M_reverse() _GLIBCXX_USE_NOEXCEPT
{
  _List_node_base *__tmp = this;
  do
  {
    std::swap(__tmp->_M_next, __tmp->_M_prev);
    // the old next node is now prev
    __tmp = __tmp->_M_prev;
  } while (__tmp != this);
}

void _List_node_base::_M_hook(_List_node_base *const __position) _GLIBCXX_USE_NOEXCEPT
{
  this->_M_next = __position;
  this->_M_prev = __position->_M_prev;
  __position->_M_prev->_M_next = this;
  __position->_M_prev = this;
}

void _List_node_base::_M_unhook() _GLIBCXX_USE_NOEXCEPT
{
  _List_node_base *const __next_node = this->_M_next;
  _List_node_base *const __prev_node = this->_M_prev;
  __prev_node->_M_next = __next_node;
  __next_node->_M_prev = __prev_node;
}
} // namespace __detail
_GLIBCXX_END_NAMESPACE_VERSION
} // namespace std

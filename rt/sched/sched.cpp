// sched.cpp -- engine S runtime.
//
// How the code under test is hooked (no source changes in /repo):
//  * the library TUs are compiled with -fsanitize=thread *instrumentation only*; gcc turns every
//    std::atomic operation into a __tsan_atomicN_* call and every plain memory access into
//    __tsan_readN/__tsan_writeN.  This file implements that ABI instead of libtsan.
//  * pthread_mutex_lock/unlock/trylock of those objects are redirected to vsched_mutex_* with
//    objcopy --redefine-sym (see vf/driver.py), so only the library's locks are modelled.
// Scheduling: real threads, exactly one runnable at a time, hand-off by futex.  A scheduling
// point sits immediately before every visible operation (mutex lock/unlock, atomic access to
// memory that is not on the running thread's own stack, thread start, thread end).  A thread
// whose pending operation is a lock of a held mutex is disabled.  No enabled thread while some
// thread is unfinished = deadlock (reported on stderr as VRT-DEADLOCK, process exits 94; the
// vrt coordinator attributes it to the announced schedule).
// Races: vector clocks per thread / mutex / atomic; byte-granular shadow of the last write and
// the last read per thread; accesses to the running thread's own stack are ignored; shadow is
// dropped when memory is freed.  The scheduler's own hand-offs are *not* entered into the
// clocks, so the detector is independent of the explored schedule.
#include "sched.hpp"

#include <atomic>
#include <climits>
#include <cstdio>
#include <cstdlib>
#include <cstring>
#include <dlfcn.h>
#include <linux/futex.h>
#include <malloc.h>
#include <new>
#include <pthread.h>
#include <sstream>
#include <sys/syscall.h>
#include <unistd.h>
#include <unordered_map>

namespace
{
using vsched::choice;
using vsched::max_threads;

enum op_kind
{
  K_START = 1,
  K_LOCK,
  K_UNLOCK,
  K_TRYLOCK,
  K_ATOMIC_LOAD,
  K_ATOMIC_STORE,
  K_ATOMIC_RMW,
  K_END,
  K_RDLOCK,
  K_WRLOCK,
  K_RWUNLOCK
};

struct vclock
{
  std::uint32_t c[max_threads + 1];
};
inline void vc_join(vclock &a, vclock const &b)
{
  for (int i = 0; i <= max_threads; ++i)
    if (b.c[i] > a.c[i])
      a.c[i] = b.c[i];
}

struct cell
{
  std::uint32_t wclk = 0;
  std::int8_t wtid = -1;
  std::uintptr_t wpc = 0;
  std::uint32_t rclk[max_threads + 1] = {0, 0, 0, 0, 0};
  std::uintptr_t rpc[max_threads + 1] = {0, 0, 0, 0, 0};
};

// the runtime's own containers must not go through the hooked operator new/delete
template <class T> struct raw_alloc
{
  using value_type = T;
  raw_alloc() = default;
  template <class U> raw_alloc(raw_alloc<U> const &) {}
  T *allocate(std::size_t n) { return static_cast<T *>(std::malloc(n * sizeof(T))); }
  void deallocate(T *p, std::size_t) { std::free(p); }
  bool operator==(raw_alloc const &) const { return true; }
  bool operator!=(raw_alloc const &) const { return false; }
};
template <class K, class V> using raw_map = std::unordered_map<K, V, std::hash<K>, std::equal_to<K>, raw_alloc<std::pair<K const, V>>>;

struct lthread
{
  pthread_t th{};
  bool created = false;
  int go = 0; // futex word
  std::function<void()> const *fn = nullptr;
  bool finished = true;
  int pending_kind = 0;
  void const *pending_addr = nullptr;
  std::uintptr_t stack_lo = 0, stack_hi = 0;
  vclock vc{};
};

struct global
{
  bool active = false;
  int nthreads = 0;
  lthread t[max_threads + 1];
  std::vector<choice> const *prefix = nullptr;
  vsched::exec_result res;
  std::uint64_t steps = 0;
  raw_map<void const *, int> owner;
  struct rwstate
  {
    int writer = 0;  // tid + 1 of the writer, 0 = none
    int readers = 0; // number of shared holders
    unsigned reader_mask = 0;
  };
  raw_map<void const *, rwstate> rw;
  raw_map<std::uintptr_t, vclock> sync;
  raw_map<std::uintptr_t, cell> shadow;
};

bool g_ready = false;
global *G = nullptr;
thread_local int tls_tid = 0;

void ensure()
{
  if (!g_ready)
  {
    G = new (std::malloc(sizeof(global))) global();
    // main thread stack bounds
    pthread_attr_t a;
    if (pthread_getattr_np(pthread_self(), &a) == 0)
    {
      void *lo = nullptr;
      size_t sz = 0;
      pthread_attr_getstack(&a, &lo, &sz);
      G->t[0].stack_lo = reinterpret_cast<std::uintptr_t>(lo);
      G->t[0].stack_hi = G->t[0].stack_lo + sz;
      pthread_attr_destroy(&a);
    }
    for (int i = 0; i <= max_threads; ++i)
      G->t[0].vc.c[i] = 0;
    G->t[0].vc.c[0] = 1;
    g_ready = true;
  }
}

inline void futex_wait(int *w)
{
  while (__atomic_load_n(w, __ATOMIC_ACQUIRE) == 0)
    syscall(SYS_futex, w, FUTEX_WAIT_PRIVATE, 0, nullptr, nullptr, 0);
  __atomic_store_n(w, 0, __ATOMIC_RELAXED);
}
inline void futex_wake(int *w)
{
  __atomic_store_n(w, 1, __ATOMIC_RELEASE);
  syscall(SYS_futex, w, FUTEX_WAKE_PRIVATE, 1, nullptr, nullptr, 0);
}

bool op_enabled(lthread const &t)
{
  if (t.finished)
    return false;
  if (t.pending_kind == K_LOCK)
  {
    auto it = G->owner.find(t.pending_addr);
    return it == G->owner.end() || it->second == 0;
  }
  if (t.pending_kind == K_RDLOCK || t.pending_kind == K_WRLOCK)
  {
    auto it = G->rw.find(t.pending_addr);
    if (it == G->rw.end())
      return true;
    return t.pending_kind == K_RDLOCK ? it->second.writer == 0 : (it->second.writer == 0 && it->second.readers == 0);
  }
  return true;
}

[[noreturn]] void deadlock()
{
  std::fprintf(stderr, "VRT-DEADLOCK: no enabled thread;");
  for (int i = 1; i <= G->nthreads; ++i)
    std::fprintf(stderr, " T%d:%s", i,
                 G->t[i].finished ? "finished"
                                  : (G->t[i].pending_kind == K_LOCK ? "blocked-on-mutex"
                                                                    : (G->t[i].pending_kind == K_RDLOCK || G->t[i].pending_kind == K_WRLOCK ? "blocked-on-rwlock" : "?")));
  std::fprintf(stderr, "\n");
  std::fflush(nullptr);
  _exit(94);
}

// choose the next thread to run; cur = running thread (0 = coordinator, never enabled)
int pick_next(int cur)
{
  int list[max_threads + 1];
  int n = 0;
  bool const ce = cur != 0 && op_enabled(G->t[cur]);
  if (ce)
    list[n++] = cur;
  for (int i = 1; i <= G->nthreads; ++i)
    if (i != cur && op_enabled(G->t[i]))
      list[n++] = i;
  if (n == 0)
  {
    for (int i = 1; i <= G->nthreads; ++i)
      if (!G->t[i].finished)
        deadlock();
    return 0; // everything finished: back to the coordinator
  }
  if (n == 1)
    return list[0];
  std::size_t const idx = G->res.choices.size();
  int pick = 0;
  if (G->prefix && idx < G->prefix->size())
  {
    choice const &p = (*G->prefix)[idx];
    if (p.n_enabled != n || p.cur_enabled != (ce ? 1 : 0) || p.pick >= n)
      G->res.diverged = true;
    else
      pick = p.pick;
  }
  G->res.choices.push_back(choice{static_cast<std::uint8_t>(n), static_cast<std::uint8_t>(ce ? 1 : 0), static_cast<std::uint8_t>(pick)});
  if (pick != 0 && ce)
    ++G->res.preemptions;
  return list[pick];
}

void sched_point(int kind, void const *addr)
{
  int const id = tls_tid;
  lthread &me = G->t[id];
  me.pending_kind = kind;
  me.pending_addr = addr;
  int const nxt = pick_next(id);
  if (nxt != id)
  {
    ++G->res.switches;
    futex_wake(&G->t[nxt].go);
    futex_wait(&me.go);
  }
  ++G->steps;
  ++G->res.points;
  G->res.stream_hash = (G->res.stream_hash ^ static_cast<std::uint64_t>(id * 16 + kind)) * 1099511628211ULL;
}

void *worker_main(void *arg)
{
  int const id = static_cast<int>(reinterpret_cast<std::intptr_t>(arg));
  tls_tid = id;
  lthread &me = G->t[id];
  {
    pthread_attr_t a;
    if (pthread_getattr_np(pthread_self(), &a) == 0)
    {
      void *lo = nullptr;
      size_t sz = 0;
      pthread_attr_getstack(&a, &lo, &sz);
      me.stack_lo = reinterpret_cast<std::uintptr_t>(lo);
      me.stack_hi = me.stack_lo + sz;
      pthread_attr_destroy(&a);
    }
  }
  for (;;)
  {
    futex_wait(&me.go); // scheduled for the first time in this execution (K_START executed)
    ++G->steps;
    ++G->res.points;
    G->res.stream_hash = (G->res.stream_hash ^ static_cast<std::uint64_t>(id * 16 + K_START)) * 1099511628211ULL;
    (*me.fn)();
    // thread end is a visible operation as well: others may be scheduled first
    me.pending_kind = K_END;
    me.pending_addr = nullptr;
    // release: everything this thread did happens-before the coordinator's continuation
    me.finished = true;
    int const nxt = pick_next(id);
    futex_wake(&G->t[nxt].go);
  }
  return nullptr;
}

inline bool on_own_stack(std::uintptr_t a)
{
  lthread const &me = G->t[tls_tid];
  return a >= me.stack_lo && a < me.stack_hi;
}

std::string where(std::uintptr_t pc)
{
  Dl_info info;
  char buf[256];
  if (pc && dladdr(reinterpret_cast<void *>(pc), &info) && info.dli_sname)
    std::snprintf(buf, sizeof buf, "%s+0x%lx", info.dli_sname, static_cast<unsigned long>(pc - reinterpret_cast<std::uintptr_t>(info.dli_saddr)));
  else
    std::snprintf(buf, sizeof buf, "pc=0x%lx", static_cast<unsigned long>(pc));
  return buf;
}

void report(char const *what, std::uintptr_t addr, int a, std::uintptr_t pca, int b, std::uintptr_t pcb)
{
  if (G->res.races.size() >= 4)
    return;
  vsched::race_report r;
  r.what = what;
  r.addr = addr;
  r.tid_a = a;
  r.tid_b = b;
  r.where_a = where(pca);
  r.where_b = where(pcb);
  G->res.races.push_back(r);
}

void access(void const *p, std::size_t size, bool is_write, std::uintptr_t pc)
{
  if (!g_ready)
    return;
  std::uintptr_t const a0 = reinterpret_cast<std::uintptr_t>(p);
  if (on_own_stack(a0))
    return;
  int const t = tls_tid;
  vclock const &vc = G->t[t].vc;
  ++G->res.accesses;
  for (std::size_t k = 0; k < size; ++k)
  {
    cell &c = G->shadow[a0 + k];
    if (c.wtid >= 0 && c.wtid != t && c.wclk > vc.c[c.wtid])
      report(is_write ? "write/write" : "read/write", a0 + k, t, pc, c.wtid, c.wpc);
    if (is_write)
    {
      for (int r = 0; r <= max_threads; ++r)
        if (r != t && c.rclk[r] > vc.c[r])
          report("write/read", a0 + k, t, pc, r, c.rpc[r]);
      c.wtid = static_cast<std::int8_t>(t);
      c.wclk = vc.c[t];
      c.wpc = pc;
      for (int r = 0; r <= max_threads; ++r)
        c.rclk[r] = 0;
    }
    else
    {
      c.rclk[t] = vc.c[t];
      c.rpc[t] = pc;
    }
  }
}

void on_free(void *p, std::size_t n)
{
  if (!g_ready || !p)
    return;
  std::uintptr_t const lo = reinterpret_cast<std::uintptr_t>(p), hi = lo + n;
  if (n <= G->shadow.size() * 4 + 64)
  {
    for (std::uintptr_t a = lo; a < hi; ++a)
      G->shadow.erase(a);
  }
  else
  {
    for (auto it = G->shadow.begin(); it != G->shadow.end();)
      it = (it->first >= lo && it->first < hi) ? G->shadow.erase(it) : std::next(it);
  }
  for (auto it = G->sync.begin(); it != G->sync.end();)
    it = (it->first >= lo && it->first < hi) ? G->sync.erase(it) : std::next(it);
  for (auto it = G->owner.begin(); it != G->owner.end();)
  {
    std::uintptr_t a = reinterpret_cast<std::uintptr_t>(it->first);
    it = (a >= lo && a < hi) ? G->owner.erase(it) : std::next(it);
  }
  for (auto it = G->rw.begin(); it != G->rw.end();)
  {
    std::uintptr_t a = reinterpret_cast<std::uintptr_t>(it->first);
    it = (a >= lo && a < hi) ? G->rw.erase(it) : std::next(it);
  }
}

inline void acquire(std::uintptr_t obj)
{
  auto it = G->sync.find(obj);
  if (it != G->sync.end())
    vc_join(G->t[tls_tid].vc, it->second);
}
inline void release(std::uintptr_t obj)
{
  vclock &s = G->sync[obj]; // value-initialised to zero on first use
  vc_join(s, G->t[tls_tid].vc);
  ++G->t[tls_tid].vc.c[tls_tid];
}

inline bool scheduled_context() { return g_ready && G->active && tls_tid != 0; }

void note_order(int mo)
{
  if (mo != 5 /* seq_cst */ && g_ready && G->res.notes.empty())
    G->res.notes.push_back("atomic operation with a memory order weaker than seq_cst seen: weaker behaviours are not modelled");
}

template <class T, class F> T atomic_op(void const *addr, int kind, int mo, bool acq, bool rel, F &&f)
{
  if (!g_ready)
    return f();
  note_order(mo);
  std::uintptr_t const a = reinterpret_cast<std::uintptr_t>(addr);
  bool const local = on_own_stack(a);
  if (scheduled_context() && !local)
    sched_point(kind, addr);
  T r = f();
  if (!local)
  {
    if (acq)
      acquire(a);
    if (rel)
      release(a);
  }
  return r;
}
} // namespace

// ------------------------------------------------------------------ public API
namespace vsched
{
std::uint64_t now() { return g_ready ? G->steps : 0; }
int current_thread() { return tls_tid; }

void reset_shadow()
{
  ensure();
  G->shadow.clear();
  G->sync.clear();
  G->owner.clear();
  G->rw.clear();
}

exec_result run(std::vector<std::function<void()>> const &threads, std::vector<choice> const &prefix)
{
  ensure();
  int const n = static_cast<int>(threads.size());
  if (n < 1 || n > max_threads)
    std::abort();
  // keep accesses/races of the setup phase that precede this call in the same result
  exec_result carried = std::move(G->res);
  G->res = exec_result();
  G->res.races = std::move(carried.races);
  G->res.accesses = carried.accesses;
  G->res.notes = std::move(carried.notes);
  G->prefix = &prefix;
  G->steps = 0;
  G->nthreads = n;
  for (int i = 1; i <= n; ++i)
  {
    lthread &t = G->t[i];
    if (!t.created)
    {
      pthread_attr_t a;
      pthread_attr_init(&a);
      pthread_attr_setstacksize(&a, 1 << 20);
      if (pthread_create(&t.th, &a, worker_main, reinterpret_cast<void *>(static_cast<std::intptr_t>(i))) != 0)
        std::abort();
      pthread_attr_destroy(&a);
      t.created = true;
      // wait until the worker has published its stack bounds
      while (__atomic_load_n(&t.stack_hi, __ATOMIC_ACQUIRE) == 0)
        usleep(50);
    }
    t.fn = &threads[static_cast<std::size_t>(i - 1)];
    t.finished = false;
    t.pending_kind = K_START;
    t.pending_addr = nullptr;
    // everything the coordinator did so far happens-before the thread's first step
    t.vc = G->t[0].vc;
    t.vc.c[i] = t.vc.c[i] + 1;
  }
  ++G->t[0].vc.c[0];
  G->active = true;
  int const first = pick_next(0);
  futex_wake(&G->t[first].go);
  futex_wait(&G->t[0].go);
  G->active = false;
  for (int i = 1; i <= n; ++i)
    vc_join(G->t[0].vc, G->t[i].vc);
  ++G->t[0].vc.c[0];
  G->prefix = nullptr;
  exec_result out = std::move(G->res);
  G->res = exec_result();
  return out;
}

void explore_rec(int bound, std::vector<choice> const &prefix,
                 std::function<exec_result(std::vector<choice> const &)> const &execute,
                 std::function<bool(exec_result const &, std::vector<choice> const &)> const &on_execution, explore_stats &stats)
{
  exec_result r = execute(prefix);
  ++stats.executions;
  stats.points += r.points;
  stats.branching_points += r.choices.size();
  if (r.points > stats.max_points)
    stats.max_points = r.points;
  if (r.preemptions >= 0 && r.preemptions < 8)
    ++stats.by_preemptions[r.preemptions];
  if (!on_execution(r, prefix))
    return;
  int cost_before = 0;
  for (std::size_t i = 0; i < r.choices.size(); ++i)
  {
    choice const &c = r.choices[i];
    if (i >= prefix.size())
    {
      int const cost = cost_before + (c.cur_enabled ? 1 : 0);
      if (cost <= bound)
        for (int alt = 1; alt < c.n_enabled; ++alt)
        {
          std::vector<choice> next(r.choices.begin(), r.choices.begin() + static_cast<std::ptrdiff_t>(i));
          next.push_back(choice{c.n_enabled, c.cur_enabled, static_cast<std::uint8_t>(alt)});
          explore_rec(bound, next, execute, on_execution, stats);
        }
    }
    if (c.pick != 0 && c.cur_enabled)
      ++cost_before;
  }
}

void explore(int bound, std::function<exec_result(std::vector<choice> const &)> const &execute,
             std::function<bool(exec_result const &, std::vector<choice> const &)> const &on_execution, explore_stats &stats)
{
  explore_rec(bound, std::vector<choice>(), execute, on_execution, stats);
}

std::string show(std::vector<choice> const &v)
{
  std::string s;
  for (choice const &c : v)
    s += std::to_string(c.n_enabled) + "." + std::to_string(c.cur_enabled) + "." + std::to_string(c.pick) + " ";
  return s;
}
std::vector<choice> parse_choices(std::string const &s)
{
  std::vector<choice> v;
  std::istringstream is(s);
  std::string tok;
  while (is >> tok)
  {
    int a, b, c;
    if (std::sscanf(tok.c_str(), "%d.%d.%d", &a, &b, &c) == 3)
      v.push_back(choice{static_cast<std::uint8_t>(a), static_cast<std::uint8_t>(b), static_cast<std::uint8_t>(c)});
  }
  return v;
}
} // namespace vsched

// ------------------------------------------------------------------ mutex hooks
extern "C"
{
int vsched_mutex_lock(pthread_mutex_t *m)
{
  ensure();
  if (scheduled_context())
    sched_point(K_LOCK, m);
  else
  {
    auto it = G->owner.find(m);
    if (it != G->owner.end() && it->second != 0)
    {
      std::fprintf(stderr, "VRT-DEADLOCK: lock of a held mutex outside the scheduled region\n");
      std::fflush(nullptr);
      _exit(94);
    }
  }
  G->owner[m] = tls_tid + 1;
  acquire(reinterpret_cast<std::uintptr_t>(m));
  return 0;
}
int vsched_mutex_trylock(pthread_mutex_t *m)
{
  ensure();
  if (scheduled_context())
    sched_point(K_TRYLOCK, m);
  auto it = G->owner.find(m);
  if (it != G->owner.end() && it->second != 0)
    return 16; // EBUSY
  G->owner[m] = tls_tid + 1;
  acquire(reinterpret_cast<std::uintptr_t>(m));
  return 0;
}
int vsched_mutex_unlock(pthread_mutex_t *m)
{
  ensure();
  if (scheduled_context())
    sched_point(K_UNLOCK, m);
  G->owner[m] = 0;
  release(reinterpret_cast<std::uintptr_t>(m));
  return 0;
}
// reader/writer locks (std::shared_mutex): a writer excludes everybody, readers exclude writers.
// Happens-before: every unlock releases into the lock's clock, every lock acquires it (this also
// orders reader->reader, a slight over-approximation of the real edges that can only hide a race
// between two *readers*, never invent one).
int vsched_rwlock_rdlock(pthread_rwlock_t *l)
{
  ensure();
  if (scheduled_context())
    sched_point(K_RDLOCK, l);
  auto &st = G->rw[l];
  ++st.readers;
  st.reader_mask |= 1U << tls_tid;
  acquire(reinterpret_cast<std::uintptr_t>(l));
  return 0;
}
int vsched_rwlock_wrlock(pthread_rwlock_t *l)
{
  ensure();
  if (scheduled_context())
    sched_point(K_WRLOCK, l);
  auto &st = G->rw[l];
  st.writer = tls_tid + 1;
  acquire(reinterpret_cast<std::uintptr_t>(l));
  return 0;
}
int vsched_rwlock_tryrdlock(pthread_rwlock_t *l)
{
  ensure();
  if (scheduled_context())
    sched_point(K_TRYLOCK, l);
  auto &st = G->rw[l];
  if (st.writer != 0)
    return 16;
  ++st.readers;
  st.reader_mask |= 1U << tls_tid;
  acquire(reinterpret_cast<std::uintptr_t>(l));
  return 0;
}
int vsched_rwlock_trywrlock(pthread_rwlock_t *l)
{
  ensure();
  if (scheduled_context())
    sched_point(K_TRYLOCK, l);
  auto &st = G->rw[l];
  if (st.writer != 0 || st.readers != 0)
    return 16;
  st.writer = tls_tid + 1;
  acquire(reinterpret_cast<std::uintptr_t>(l));
  return 0;
}
int vsched_rwlock_unlock(pthread_rwlock_t *l)
{
  ensure();
  if (scheduled_context())
    sched_point(K_RWUNLOCK, l);
  auto &st = G->rw[l];
  if (st.writer == tls_tid + 1)
    st.writer = 0;
  else if (st.readers > 0)
  {
    --st.readers;
    st.reader_mask &= ~(1U << tls_tid);
  }
  release(reinterpret_cast<std::uintptr_t>(l));
  return 0;
}

// blocking primitives that are not modelled: a change that introduces them must not silently
// block a descheduled thread for real -- stop with a harness error instead
[[noreturn]] static void unsupported(char const *what)
{
  std::fprintf(stderr, "VRT-UNSUPPORTED-SYNC: %s is not modelled by the scheduler\n", what);
  std::fflush(nullptr);
  _exit(93);
}
#define VS_UNSUPPORTED(name) \
  int vsched_unsupported_##name(void *, void *, void *) { unsupported(#name); }
VS_UNSUPPORTED(pthread_mutex_timedlock)
VS_UNSUPPORTED(pthread_mutex_clocklock)
VS_UNSUPPORTED(pthread_rwlock_timedrdlock)
VS_UNSUPPORTED(pthread_rwlock_timedwrlock)
VS_UNSUPPORTED(pthread_rwlock_clockrdlock)
VS_UNSUPPORTED(pthread_rwlock_clockwrlock)
VS_UNSUPPORTED(pthread_cond_wait)
VS_UNSUPPORTED(pthread_cond_timedwait)
VS_UNSUPPORTED(pthread_cond_clockwait)
VS_UNSUPPORTED(pthread_cond_signal)
VS_UNSUPPORTED(pthread_cond_broadcast)
VS_UNSUPPORTED(pthread_spin_lock)
VS_UNSUPPORTED(pthread_spin_trylock)
VS_UNSUPPORTED(pthread_spin_unlock)

// ------------------------------------------------------------------ TSan ABI: plain accesses
void __tsan_init() {}
void __tsan_func_entry(void *) {}
void __tsan_func_exit() {}
#define VS_PC reinterpret_cast<std::uintptr_t>(__builtin_return_address(0))
void __tsan_read1(void *a) { access(a, 1, false, VS_PC); }
void __tsan_read2(void *a) { access(a, 2, false, VS_PC); }
void __tsan_read4(void *a) { access(a, 4, false, VS_PC); }
void __tsan_read8(void *a) { access(a, 8, false, VS_PC); }
void __tsan_read16(void *a) { access(a, 16, false, VS_PC); }
void __tsan_write1(void *a) { access(a, 1, true, VS_PC); }
void __tsan_write2(void *a) { access(a, 2, true, VS_PC); }
void __tsan_write4(void *a) { access(a, 4, true, VS_PC); }
void __tsan_write8(void *a) { access(a, 8, true, VS_PC); }
void __tsan_write16(void *a) { access(a, 16, true, VS_PC); }
void __tsan_unaligned_read2(void *a) { access(a, 2, false, VS_PC); }
void __tsan_unaligned_read4(void *a) { access(a, 4, false, VS_PC); }
void __tsan_unaligned_read8(void *a) { access(a, 8, false, VS_PC); }
void __tsan_unaligned_read16(void *a) { access(a, 16, false, VS_PC); }
void __tsan_unaligned_write2(void *a) { access(a, 2, true, VS_PC); }
void __tsan_unaligned_write4(void *a) { access(a, 4, true, VS_PC); }
void __tsan_unaligned_write8(void *a) { access(a, 8, true, VS_PC); }
void __tsan_unaligned_write16(void *a) { access(a, 16, true, VS_PC); }
void __tsan_read_range(void *a, unsigned long n) { access(a, n, false, VS_PC); }
void __tsan_write_range(void *a, unsigned long n) { access(a, n, true, VS_PC); }
void __tsan_vptr_update(void **a, void *) { access(a, sizeof(void *), true, VS_PC); }
void __tsan_vptr_read(void **a) { access(a, sizeof(void *), false, VS_PC); }
void __tsan_read1_pc(void *a, void *) { access(a, 1, false, VS_PC); }
void __tsan_read2_pc(void *a, void *) { access(a, 2, false, VS_PC); }
void __tsan_read4_pc(void *a, void *) { access(a, 4, false, VS_PC); }
void __tsan_read8_pc(void *a, void *) { access(a, 8, false, VS_PC); }
void __tsan_write1_pc(void *a, void *) { access(a, 1, true, VS_PC); }
void __tsan_write2_pc(void *a, void *) { access(a, 2, true, VS_PC); }
void __tsan_write4_pc(void *a, void *) { access(a, 4, true, VS_PC); }
void __tsan_write8_pc(void *a, void *) { access(a, 8, true, VS_PC); }

// libc memory functions called by the instrumented objects (redirected by objcopy like the pthread calls): the
// bytes they touch are accesses of the calling thread; libc itself is not instrumented
void *vsched_memcpy(void *d, void const *s, unsigned long n)
{
  if (n)
  {
    access(const_cast<void *>(s), n, false, VS_PC);
    access(d, n, true, VS_PC);
  }
  return std::memcpy(d, s, n);
}
void *vsched_memmove(void *d, void const *s, unsigned long n)
{
  if (n)
  {
    access(const_cast<void *>(s), n, false, VS_PC);
    access(d, n, true, VS_PC);
  }
  return std::memmove(d, s, n);
}
void *vsched_memset(void *d, int c, unsigned long n)
{
  if (n)
    access(d, n, true, VS_PC);
  return std::memset(d, c, n);
}
int vsched_memcmp(void const *a, void const *b, unsigned long n)
{
  if (n)
  {
    access(const_cast<void *>(a), n, false, VS_PC);
    access(const_cast<void *>(b), n, false, VS_PC);
  }
  return std::memcmp(a, b, n);
}

// ------------------------------------------------------------------ TSan ABI: atomics
#define VS_ATOMICS(N, T)                                                                                                         \
  T __tsan_atomic##N##_load(T const volatile *a, int mo)                                                                         \
  {                                                                                                                              \
    return atomic_op<T>(const_cast<T const *>(a), K_ATOMIC_LOAD, mo, true, false, [&] { return __atomic_load_n(a, __ATOMIC_SEQ_CST); }); \
  }                                                                                                                              \
  void __tsan_atomic##N##_store(T volatile *a, T v, int mo)                                                                      \
  {                                                                                                                              \
    atomic_op<int>(const_cast<T *>(a), K_ATOMIC_STORE, mo, false, true, [&] { __atomic_store_n(a, v, __ATOMIC_SEQ_CST); return 0; }); \
  }                                                                                                                              \
  T __tsan_atomic##N##_exchange(T volatile *a, T v, int mo)                                                                      \
  {                                                                                                                              \
    return atomic_op<T>(const_cast<T *>(a), K_ATOMIC_RMW, mo, true, true, [&] { return __atomic_exchange_n(a, v, __ATOMIC_SEQ_CST); }); \
  }                                                                                                                              \
  T __tsan_atomic##N##_fetch_add(T volatile *a, T v, int mo)                                                                     \
  {                                                                                                                              \
    return atomic_op<T>(const_cast<T *>(a), K_ATOMIC_RMW, mo, true, true, [&] { return __atomic_fetch_add(a, v, __ATOMIC_SEQ_CST); }); \
  }                                                                                                                              \
  T __tsan_atomic##N##_fetch_sub(T volatile *a, T v, int mo)                                                                     \
  {                                                                                                                              \
    return atomic_op<T>(const_cast<T *>(a), K_ATOMIC_RMW, mo, true, true, [&] { return __atomic_fetch_sub(a, v, __ATOMIC_SEQ_CST); }); \
  }                                                                                                                              \
  T __tsan_atomic##N##_fetch_and(T volatile *a, T v, int mo)                                                                     \
  {                                                                                                                              \
    return atomic_op<T>(const_cast<T *>(a), K_ATOMIC_RMW, mo, true, true, [&] { return __atomic_fetch_and(a, v, __ATOMIC_SEQ_CST); }); \
  }                                                                                                                              \
  T __tsan_atomic##N##_fetch_or(T volatile *a, T v, int mo)                                                                      \
  {                                                                                                                              \
    return atomic_op<T>(const_cast<T *>(a), K_ATOMIC_RMW, mo, true, true, [&] { return __atomic_fetch_or(a, v, __ATOMIC_SEQ_CST); }); \
  }                                                                                                                              \
  T __tsan_atomic##N##_fetch_xor(T volatile *a, T v, int mo)                                                                     \
  {                                                                                                                              \
    return atomic_op<T>(const_cast<T *>(a), K_ATOMIC_RMW, mo, true, true, [&] { return __atomic_fetch_xor(a, v, __ATOMIC_SEQ_CST); }); \
  }                                                                                                                              \
  int __tsan_atomic##N##_compare_exchange_strong(T volatile *a, T *expected, T desired, int mo, int)                              \
  {                                                                                                                              \
    return atomic_op<int>(const_cast<T *>(a), K_ATOMIC_RMW, mo, true, true, [&] {                                                \
      return static_cast<int>(__atomic_compare_exchange_n(a, expected, desired, false, __ATOMIC_SEQ_CST, __ATOMIC_SEQ_CST));     \
    });                                                                                                                          \
  }                                                                                                                              \
  int __tsan_atomic##N##_compare_exchange_weak(T volatile *a, T *expected, T desired, int mo, int)                                \
  {                                                                                                                              \
    return atomic_op<int>(const_cast<T *>(a), K_ATOMIC_RMW, mo, true, true, [&] {                                                \
      return static_cast<int>(__atomic_compare_exchange_n(a, expected, desired, false, __ATOMIC_SEQ_CST, __ATOMIC_SEQ_CST));     \
    });                                                                                                                          \
  }

VS_ATOMICS(8, unsigned char)
VS_ATOMICS(16, unsigned short)
VS_ATOMICS(32, unsigned int)
VS_ATOMICS(64, unsigned long)
void __tsan_atomic_thread_fence(int) { __atomic_thread_fence(__ATOMIC_SEQ_CST); }
void __tsan_atomic_signal_fence(int) {}
} // extern "C"

// ------------------------------------------------------------------ allocation hooks
void *operator new(std::size_t n)
{
  void *p = std::malloc(n ? n : 1);
  if (!p)
    throw std::bad_alloc();
  return p;
}
void *operator new[](std::size_t n) { return operator new(n); }
void *operator new(std::size_t n, std::nothrow_t const &) noexcept { return std::malloc(n ? n : 1); }
void *operator new[](std::size_t n, std::nothrow_t const &) noexcept { return std::malloc(n ? n : 1); }
void operator delete(void *p) noexcept
{
  if (p)
  {
    on_free(p, malloc_usable_size(p));
    std::free(p);
  }
}
void operator delete[](void *p) noexcept { operator delete(p); }
void operator delete(void *p, std::size_t) noexcept { operator delete(p); }
void operator delete[](void *p, std::size_t) noexcept { operator delete(p); }
